// crondrv: drives the in-memory cron service (cron.Cron) on real time with
// generated client scripts (Add / Rem / replace, while jobs are pending, due or
// running; suspend / resume / pause) and records, for spec/CronTrace.tla,
//   - the service's own steps, reported by its verif hook points under its lock
//     (ins, pop, rem), in the order in which they happened,
//   - the clients' calls with their results (add, remret, ctl),
//   - every invocation of a job's function (fire, done),
//   - snapshots of the timeline taken under the service's lock (snap, end).
// All times are microseconds of one clock (wall time since the scenario began).
package main

import (
	"bufio"
	"encoding/json"
	"flag"
	"fmt"
	"io/ioutil"
	"math/rand"
	"os"
	"strings"
	"sync"
	"time"

	"github.com/Comcast/rulio/core"
	"github.com/Comcast/rulio/cron"
)

type J = map[string]interface{}

type scenario struct {
	mu     sync.Mutex
	lines  []J
	seq    int64
	start  time.Time
	c      *cron.Cron
	ctx    *core.Context
	gens   map[string]int // schedule string -> g
	ids    map[int]string
	gen    int
	fired  map[string]chan struct{} // id -> signalled when its function starts
	wg     sync.WaitGroup
	hooked int
	name   string
	popped int // pops reported by the hook
	begun  int // functions that have started
}

var cur *scenario
var curMu sync.Mutex

func (s *scenario) us(t time.Time) int64 { return (t.UnixNano() - s.start.UnixNano()) / 1000 }
func (s *scenario) nowUs() int64       { return s.us(time.Now()) }

// log appends a line; returns its sequence number
func (s *scenario) log(j J) int64 {
	s.mu.Lock()
	s.seq++
	j["seq"] = s.seq
	s.lines = append(s.lines, j)
	n := s.seq
	s.mu.Unlock()
	return n
}

func (s *scenario) mark() int64 {
	s.mu.Lock()
	n := s.seq
	s.mu.Unlock()
	return n
}

func atoi(x string) int64 {
	var n int64
	fmt.Sscanf(x, "%d", &n)
	return n
}

// the hook: called by the cron package with its lock held
func hook(point string) {
	curMu.Lock()
	s := cur
	curMu.Unlock()
	if s == nil {
		return
	}
	f := strings.Split(point, "\t")
	if len(f) < 3 || f[1] != s.name {
		return // some other Cron's step (say of a scenario that is over)
	}
	f = append(f[:1], f[2:]...)
	switch f[0] {
	case "Cron.insert", "Cron.pop":
		ev := "ins"
		if f[0] == "Cron.pop" {
			ev = "pop"
		}
		s.mu.Lock()
		g := s.gens[f[2]]
		s.hooked++
		if ev == "pop" {
			s.popped++
		}
		s.mu.Unlock()
		rec := !strings.HasPrefix(f[2], "+") && !strings.HasPrefix(f[2], "!")
		s.log(J{"ev": ev, "id": f[1], "g": g, "rec": rec, "next": (atoi(f[3]) - s.start.UnixNano()) / 1000, "now": (atoi(f[4]) - s.start.UnixNano()) / 1000})
	case "Cron.rem":
		s.mu.Lock()
		s.hooked++
		s.mu.Unlock()
		s.log(J{"ev": "rem", "id": f[1], "found": f[2] == "true"})
	}
}

// snapshot of the timeline, taken under the service's lock
func (s *scenario) snap(ev string) { s.snapWhen(ev, false) }

// snapIf takes the snapshot only at a moment when no popped job is still to start
func (s *scenario) snapIf(ev string) {
	for try := 0; try < 2000; try++ {
		if s.snapWhen(ev, true) {
			return
		}
		time.Sleep(2 * time.Millisecond)
	}
	fmt.Fprintln(os.Stderr, "crondrv: a popped job's function never started")
	os.Exit(2)
}

func (s *scenario) snapWhen(ev string, settled bool) bool {
	s.c.Lock()
	defer s.c.Unlock()
	if settled {
		s.mu.Lock()
		ok := s.popped == s.begun
		s.mu.Unlock()
		if !ok {
			return false
		}
	}
	pend := []interface{}{}
	for _, job := range s.c.Timeline {
		s.mu.Lock()
		g := s.gens[job.Schedule]
		s.mu.Unlock()
		pend = append(pend, J{"id": job.Id, "g": g, "next": s.us(job.Next)})
	}
	s.log(J{"ev": ev, "pending": pend, "t": s.nowUs(), "count": len(s.c.Timeline)})
	return true
}

// every job gets a schedule string of its own, so that hook reports can be told apart
func (s *scenario) onceSchedule(r *rand.Rand, d time.Duration, g int) (string, int64) {
	d = d.Truncate(time.Millisecond) + time.Duration(g)*time.Microsecond
	if r.Intn(3) == 0 {
		at := time.Now().Add(d).UTC().Truncate(time.Microsecond)
		return "!" + at.Format("2006-01-02T15:04:05.000000Z07:00"), -2 - s.us(at) // absolute: d carries the time itself
	}
	return "+" + d.String(), int64(d / time.Microsecond)
}

func (s *scenario) recSchedule(g int) string {
	// every second; the year field tells the jobs apart
	return fmt.Sprintf("* * * * * * 2026-%d", 2040+g)
}

func (s *scenario) add(r *rand.Rand, id string, rec bool, delay, fnDur time.Duration) {
	s.mu.Lock()
	s.gen++
	g := s.gen
	var sched string
	var d int64
	if rec {
		sched, d = s.recSchedule(g), -1
	} else {
		sched, d = s.onceSchedule(r, delay, g)
	}
	s.gens[sched] = g
	s.mu.Unlock()
	fn := func(t time.Time) error {
		s.log(J{"ev": "fire", "id": id, "g": g, "t": s.nowUs()})
		s.mu.Lock()
		s.begun++
		ch := s.fired[id]
		s.mu.Unlock()
		select {
		case ch <- struct{}{}:
		default:
		}
		if fnDur > 0 {
			time.Sleep(fnDur)
		}
		s.log(J{"ev": "done", "id": id, "g": g, "t": s.nowUs()})
		return nil
	}
	s0, t0 := s.mark(), s.nowUs()
	err := s.c.Add(s.ctx, id, sched, fn)
	t1 := s.nowUs()
	line := J{"ev": "add", "id": id, "g": g, "rec": rec, "s0": s0, "t0": t0, "t1": t1, "d": d, "abs": int64(0), "err": err != nil}
	if d < -1 {
		line["abs"] = -2 - d
		line["d"] = int64(-2)
	}
	s.log(line)
}

func (s *scenario) rem(id string) {
	s0, t0 := s.mark(), s.nowUs()
	found, err := s.c.Rem(s.ctx, id)
	s.log(J{"ev": "remret", "id": id, "found": found, "s0": s0, "t0": t0, "t1": s.nowUs(), "err": err != nil})
}

func (s *scenario) ctl(cmd string) {
	var err error
	switch cmd {
	case "suspend":
		err = s.c.Suspend(s.ctx)
	case "resume":
		err = s.c.Resume(s.ctx)
	case "pause":
		err = s.c.Pause(s.ctx)
	}
	s.log(J{"ev": "ctl", "cmd": cmd, "t": s.nowUs(), "err": err != nil})
}

// waitFire blocks until the function of the job under id starts (or the timeout passes)
func (s *scenario) waitFire(id string, max time.Duration) bool {
	s.mu.Lock()
	ch := s.fired[id]
	s.mu.Unlock()
	for {
		select { // drain stale signals first
		case <-ch:
			continue
		default:
		}
		break
	}
	select {
	case <-ch:
		return true
	case <-time.After(max):
		return false
	}
}

func ms(n int) time.Duration { return time.Duration(n) * time.Millisecond }

func (s *scenario) client(r *rand.Rand, kind string, ids []string, steps int) {
	defer s.wg.Done()
	switch kind {
	case "remhead":
		// the head is removed before it is due; the rest must still be served
		s.add(r, ids[0], false, ms(80+r.Intn(60)), 0)
		s.add(r, ids[1], false, ms(250+r.Intn(100)), 0)
		if r.Intn(2) == 0 {
			s.add(r, ids[2], false, ms(400+r.Intn(100)), 0)
		}
		time.Sleep(ms(20 + r.Intn(40)))
		s.rem(ids[0])
		return
	case "remrunning":
		// a recurring job is removed (or replaced) while its function runs
		if r.Intn(4) == 0 {
			// ... by a job whose own function is running when the first one's returns (both take longer than a period)
			s.add(r, ids[0], true, 0, ms(1400+r.Intn(300)))
			if s.waitFire(ids[0], 1500*time.Millisecond) {
				time.Sleep(ms(20 + r.Intn(100)))
			}
			s.add(r, ids[0], true, 0, ms(900+r.Intn(300)))
			time.Sleep(ms(2600))
			s.rem(ids[0])
			return
		}
		s.add(r, ids[0], true, 0, ms(250+r.Intn(200)))
		if s.waitFire(ids[0], 1500*time.Millisecond) {
			time.Sleep(ms(20 + r.Intn(100)))
		}
		switch r.Intn(3) {
		case 0:
			s.rem(ids[0])
		case 1:
			s.add(r, ids[0], false, ms(1300+r.Intn(300)), 0)
		case 2:
			s.add(r, ids[0], true, 0, 0)
			time.Sleep(ms(1200))
			s.rem(ids[0])
		}
		return
	}
	for i := 0; i < steps; i++ {
		time.Sleep(ms(r.Intn(130)))
		id := ids[r.Intn(len(ids))]
		switch n := r.Intn(10); {
		case n < 4:
			s.add(r, id, false, ms(15+r.Intn(300)), ms(r.Intn(3)*40))
		case n < 5:
			s.add(r, id, true, 0, ms(r.Intn(4)*120))
		case n < 8:
			s.rem(id)
		case n < 9:
			if s.waitFire(id, ms(300)) {
				time.Sleep(ms(r.Intn(60)))
			}
			s.rem(id)
		default:
			s.snap("snap")
		}
	}
}

func (s *scenario) controller(r *rand.Rand, steps int) {
	defer s.wg.Done()
	for i := 0; i < steps; i++ {
		time.Sleep(ms(100 + r.Intn(300)))
		switch r.Intn(3) {
		case 0:
			s.ctl("pause")
		default:
			s.ctl("suspend")
			time.Sleep(ms(50 + r.Intn(250)))
			s.ctl("resume")
		}
	}
}

func runScenario(seed int64, kind string) []J {
	r := rand.New(rand.NewSource(seed))
	s := &scenario{start: time.Now().Truncate(time.Microsecond), gens: map[string]int{}, fired: map[string]chan struct{}{}}
	ids := []string{"a", "b", "c", "d", "e"}
	for _, id := range ids {
		s.fired[id] = make(chan struct{}, 1)
	}
	s.ctx = core.NewContext("crondrv")
	s.name = fmt.Sprintf("crondrv-%d", seed)
	c, err := cron.NewCron(cron.NewCronBroadcaster(), 120*time.Millisecond, s.name, 100)
	if err != nil {
		panic(err)
	}
	s.c = c
	curMu.Lock()
	cur = s
	curMu.Unlock()
	s.log(J{"ev": "reset", "kind": kind, "seed": seed, "ids": ids, "off": (s.start.UnixNano() / 1000) % 1000000})
	c.Start(s.ctx)
	time.Sleep(ms(20))

	switch kind {
	case "random", "suspend":
		s.wg.Add(2)
		go s.client(rand.New(rand.NewSource(seed*7+1)), "random", ids[:3], 6+r.Intn(5))
		go s.client(rand.New(rand.NewSource(seed*7+2)), "random", ids[3:], 5+r.Intn(4))
		if kind == "suspend" {
			s.wg.Add(1)
			go s.controller(rand.New(rand.NewSource(seed*7+3)), 2+r.Intn(2))
		}
	case "remhead":
		s.wg.Add(1)
		go s.client(rand.New(rand.NewSource(seed*7+1)), "remhead", ids[:3], 0)
		if r.Intn(2) == 0 {
			s.wg.Add(1)
			go s.client(rand.New(rand.NewSource(seed*7+2)), "random", ids[3:], 3)
		}
	case "remrunning":
		s.wg.Add(1)
		go s.client(rand.New(rand.NewSource(seed*7+1)), "remrunning", ids[:3], 0)
		if r.Intn(2) == 0 {
			s.wg.Add(1)
			go s.client(rand.New(rand.NewSource(seed*7+2)), "random", ids[3:], 3)
		}
	}
	s.wg.Wait()
	// quiescence: every one-shot job that is still pending gets the time to come due,
	// plus a settling time well beyond any scheduling delay
	deadline := time.Now()
	c.Lock()
	for _, job := range c.Timeline {
		if job.Once() && job.Next.After(deadline) {
			deadline = job.Next
		}
	}
	c.Unlock()
	if d := time.Until(deadline); d > 0 {
		time.Sleep(d)
	}
	time.Sleep(1500 * time.Millisecond)
	// the final snapshot is taken at a moment when every popped job's function has at least
	// started (a recurring job may be popped at any time; with the service's lock held no
	// further pop can happen)
	s.snapIf("end")
	c.Kill(s.ctx)
	time.Sleep(ms(30))
	curMu.Lock()
	cur = nil
	curMu.Unlock()
	s.mu.Lock()
	defer s.mu.Unlock()
	s.lines = append(s.lines, J{"ev": "stats", "hooked": s.hooked})
	return s.lines
}

func main() {
	seed := flag.Int64("seed", 1, "seed")
	n := flag.Int("n", 6, "scenarios")
	out := flag.String("out", "", "trace file (ndjson)")
	flag.Parse()
	core.DefaultLogger = core.NewSimpleLogger(ioutil.Discard)
	if !installHook() {
		fmt.Fprintln(os.Stderr, "crondrv: built without -tags verif: the hook points are not there")
		os.Exit(2)
	}
	f, err := os.Create(*out)
	if err != nil {
		fmt.Fprintln(os.Stderr, err)
		os.Exit(2)
	}
	w := bufio.NewWriter(f)
	kinds := []string{"remhead", "remrunning", "random", "suspend", "random", "remrunning", "remhead", "suspend"}
	hooked, lines := 0, 0
	for i := 0; i < *n; i++ {
		for _, l := range runScenario(*seed*1000+int64(i), kinds[i%len(kinds)]) {
			if l["ev"] == "stats" {
				hooked += l["hooked"].(int)
				continue
			}
			b, _ := json.Marshal(l)
			w.Write(b)
			w.WriteString("\n")
			lines++
		}
	}
	w.Flush()
	f.Close()
	if hooked == 0 {
		fmt.Fprintln(os.Stderr, "crondrv: the hook points never reported")
		os.Exit(2)
	}
	b, _ := json.Marshal(J{"scenarios": *n, "lines": lines, "hook_events": hooked})
	fmt.Println(string(b))
}
