//go:build !verif
// +build !verif

package main

func installHook() bool { return false }
