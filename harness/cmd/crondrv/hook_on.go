//go:build verif
// +build verif

package main

import "github.com/Comcast/rulio/core"

func installHook() bool {
	core.VerifHook = hook
	return true
}
