// matchdrv: runs core.Matches / core.Match on an enumerated universe of
// (pattern, data, initial bindings) and on seeded random cases, through the
// plain JSON types and through Go-typed inputs (core.Map, []string, ints),
// and records every call for spec/MatchTrace.tla.
package main

import (
	"bufio"
	"encoding/json"
	"flag"
	"fmt"
	"io/ioutil"
	"math/rand"
	"os"
	"reflect"

	"github.com/Comcast/rulio/core"
	"verif/harness/enc"
	"verif/harness/world"
)

type J = map[string]interface{}
type A = []interface{}

func clone(x interface{}) interface{} {
	bs, _ := json.Marshal(x)
	var y interface{}
	json.Unmarshal(bs, &y)
	return y
}

// cloneTyped copies a value keeping its Go types (core.Map, []string, int, ...).
func cloneTyped(x interface{}) interface{} {
	switch v := x.(type) {
	case core.Map:
		m := core.Map{}
		for k, e := range v {
			m[k] = cloneTyped(e)
		}
		return m
	case map[string]interface{}:
		m := map[string]interface{}{}
		for k, e := range v {
			m[k] = cloneTyped(e)
		}
		return m
	case []interface{}:
		a := make([]interface{}, len(v))
		for i, e := range v {
			a[i] = cloneTyped(e)
		}
		return a
	case []string:
		a := make([]string, len(v))
		copy(a, v)
		return a
	}
	return x
}

// goTyped rewrites a JSON value with Go types the matcher has to cast:
// core.Map for maps, []string for all-string arrays, int for integral numbers.
func goTyped(x interface{}) interface{} {
	switch v := x.(type) {
	case map[string]interface{}:
		m := core.Map{}
		for k, e := range v {
			m[k] = goTyped(e)
		}
		return m
	case []interface{}:
		allStr := len(v) > 0
		for _, e := range v {
			if _, ok := e.(string); !ok {
				allStr = false
			}
		}
		if allStr {
			ss := make([]string, len(v))
			for i, e := range v {
				ss[i] = e.(string)
			}
			return ss
		}
		a := make([]interface{}, len(v))
		for i, e := range v {
			a[i] = goTyped(e)
		}
		return a
	case float64:
		if v == float64(int(v)) {
			return int(v)
		}
		return v
	}
	return x
}

// plainTyped is goTyped below a top level that stays a plain map[string]interface{} (what a Go
// caller who did not wrap the value in core.Map hands over, and what a script's object literal is).
func plainTyped(x J) interface{} {
	m := map[string]interface{}{}
	for k, e := range x {
		m[k] = goTyped(e)
	}
	return m
}

var (
	// values of different type that print alike ("1" and 1, true and "true") are in on purpose
	dataVals = []interface{}{1.0, "x", true, nil, A{1.0, "x"}, A{"x"}, A{}, J{"n": 1.0}, J{"n": "x", "m": 1.0}, J{},
		A{J{"n": 1.0}, J{"n": "x"}}, A{"1", 1.0}, A{true, "true"}, A{"x", "y"}}
	patVals = []interface{}{1.0, "x", true, nil, A{1.0, "x"}, A{"x"}, A{}, J{"n": 1.0}, J{},
		"?x", "?y", A{"?x"}, A{1.0, "?x"}, A{"x", "?y"}, J{"n": "?x"}, J{"n": "?y", "m": "?x"}, A{J{"n": "?x"}},
		A{J{"n": "?x"}, J{"n": "?y"}}}
)

// hasNil: null anywhere in the value (a null binding reaches a script as undefined, which is about how
// values are handed to scripts, not about matching; such cases are not asked through Env.match)
func hasNil(x interface{}) bool {
	switch v := x.(type) {
	case nil:
		return true
	case map[string]interface{}:
		for _, e := range v {
			if hasNil(e) {
				return true
			}
		}
	case []interface{}:
		for _, e := range v {
			if hasNil(e) {
				return true
			}
		}
	}
	return false
}

func universe(vals []interface{}) []J {
	acc := []J{}
	for i := -1; i < len(vals); i++ {
		for j := -1; j < len(vals); j++ {
			m := J{}
			if i >= 0 {
				m["a"] = clone(vals[i])
			}
			if j >= 0 {
				m["b"] = clone(vals[j])
			}
			acc = append(acc, m)
		}
	}
	return acc
}

// hasVarKey: some map in x has a key that is a variable
func hasVarKey(x interface{}) bool {
	switch v := x.(type) {
	case map[string]interface{}:
		for k, y := range v {
			if len(k) > 0 && k[0] == '?' || hasVarKey(y) {
				return true
			}
		}
	case []interface{}:
		for _, y := range v {
			if hasVarKey(y) {
				return true
			}
		}
	}
	return false
}

func main() {
	var (
		seed   = flag.Int64("seed", 1, "seed")
		stride = flag.Int("stride", 1, "take every stride-th case of the exhaustive universe")
		nrand  = flag.Int("random", 2000, "number of random cases")
		out    = flag.String("out", "match.ndjson", "output")
	)
	flag.Parse()
	core.DefaultLogger = core.NewSimpleLogger(ioutil.Discard)
	t := enc.NewTables()
	f, err := os.Create(*out + ".body")
	if err != nil {
		panic(err)
	}
	w := bufio.NewWriterSize(f, 1<<20)
	je := json.NewEncoder(w)
	je.SetEscapeHTML(false)
	n := 0
	ctx := core.NewContext("verif")
	ctx.Verbosity = core.NOTHING

	run := func(p, d J, b0 J, via string) {
		if via == "bind" && hasVarKey(p) {
			via = "match" // Bind does not substitute property variables
		}
		if via == "envmatch" && (hasNil(p) || hasNil(d)) {
			via = "matches"
		}
		var pin, din interface{} = clone(p), clone(d)
		if via == "gotyped" {
			pin, din = goTyped(p), goTyped(d)
		}
		if via == "plaintyped" {
			pin, din = plainTyped(p), plainTyped(d)
		}
		pcopy, dcopy, bcopy := cloneTyped(pin), cloneTyped(din), clone(b0)
		bs := core.Bindings{}
		for k, v := range b0 {
			bs[k] = clone(v)
		}
		var bss []core.Bindings
		var err error
		if via == "envmatch" {
			// the same question asked by a script: Env.match(pattern, fact)
			pj, _ := json.Marshal(p)
			dj, _ := json.Marshal(d)
			var v interface{}
			v, err = core.RunJavascript(ctx, nil, nil, "JSON.stringify(Env.match("+string(pj)+", "+string(dj)+"))")
			if err == nil {
				var got []map[string]interface{}
				if s, ok := v.(string); !ok || json.Unmarshal([]byte(s), &got) != nil {
					err = fmt.Errorf("Env.match returned %v", v)
				}
				for _, b := range got {
					bss = append(bss, core.Bindings(b))
				}
			}
		} else if via == "bind" {
			// what a pattern query does with an incoming binding: substitute it into the
			// pattern (Bindings.Bind), match, and extend the incoming binding by each result
			bound := bs.Bind(ctx, pin)
			var more []core.Bindings
			more, err = core.Matches(ctx, bound, din)
			for _, m := range more {
				ext := core.Bindings{}
				for k, v := range b0 {
					ext[k] = clone(v)
				}
				for k, v := range m {
					ext[k] = v
				}
				bss = append(bss, ext)
			}
		} else if via == "matches" && len(b0) == 0 {
			bss, err = core.Matches(ctx, pin, din)
		} else {
			bss, err = core.Match(ctx, pin, din, bs)
		}
		// type-sensitive: a core.Map or []string the caller passed in is still one afterwards
		mut := !reflect.DeepEqual(pin, pcopy) || !reflect.DeepEqual(din, dcopy) ||
			!reflect.DeepEqual(clone(map[string]interface{}(bs)), bcopy)
		res := make([]interface{}, 0, len(bss))
		for _, b := range bss {
			res = append(res, t.EncodeBindings(clone(map[string]interface{}(b)).(map[string]interface{})))
		}
		msg := ""
		if err != nil {
			msg = err.Error()
		}
		je.Encode(J{"ev": "match", "via": via, "p": t.Encode(map[string]interface{}(p)), "d": t.Encode(map[string]interface{}(d)),
			"b0": t.EncodeBindings(b0), "res": res, "err": err != nil, "mut": mut, "msg": msg})
		n++
	}

	pats, datas := universe(patVals), universe(dataVals)
	k := 0
	for _, p := range pats {
		for _, d := range datas {
			k++
			if k%*stride != 0 {
				continue
			}
			run(p, d, J{}, "matches")
			if k%(3**stride) == 0 {
				run(p, d, J{"?x": 1.0}, "match")
				run(p, d, J{}, "gotyped")
				run(p, d, J{"?x": 1.0}, "bind")
				run(p, d, J{"?x": nil}, "bind") // a variable bound to null is bound
				run(p, d, J{"?x": nil}, "match")
			}
			if k%(4**stride) == 0 {
				run(p, d, J{}, "plaintyped")
			}
			if k%(5**stride) == 0 {
				run(p, d, J{}, "envmatch")
			}
		}
	}
	// random, deeper cases derived from data so that many match
	g := &world.Gen{R: rand.New(rand.NewSource(*seed)), P: world.Profile{Ids: []string{"i"}}}
	for i := 0; i < *nrand; i++ {
		d := g.Fact()
		g.P.Cascade = false
		p := g.Pattern()
		if g.R.Intn(2) == 0 {
			p = g.PatternOfData(d)
		}
		via := []string{"matches", "match", "gotyped", "plaintyped", "envmatch"}[g.R.Intn(5)]
		b0 := J{}
		if via == "match" && g.R.Intn(2) == 0 {
			b0["?x"] = g.Scalar()
			if g.R.Intn(2) == 0 {
				via = "bind"
			}
		}
		run(p, d, b0, via)
	}
	w.Flush()
	f.Close()
	// header first
	hf, _ := os.Create(*out)
	hw := bufio.NewWriter(hf)
	he := json.NewEncoder(hw)
	he.SetEscapeHTML(false)
	he.Encode(t.Header(map[string]interface{}{"max": 0, "seed": *seed}))
	body, _ := ioutil.ReadFile(*out + ".body")
	hw.Write(body)
	hw.Flush()
	hf.Close()
	os.Remove(*out + ".body")
	fmt.Printf("cases=%d out=%s\n", n, *out)
}
