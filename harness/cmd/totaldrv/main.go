// totaldrv: feeds every document of the grammar enumerated by spec/Totality.tla
// to every public operation (as fact, rule, pattern, query, event), each time
// followed by the canary protocol on the same location, each call under a
// watchdog; journals what it is about to do (a fatal crash is attributed to
// the journal's last line) and records the outcomes for spec/TotalTrace.tla.
package main

import (
	"bufio"
	"encoding/json"
	"flag"
	"fmt"
	"io/ioutil"
	"os"
	"strings"
	"time"

	"github.com/Comcast/rulio/core"
	"github.com/Comcast/rulio/cron"
	"github.com/Comcast/rulio/sys"
	"verif/harness/enc"
	"verif/harness/world"
)

type J = map[string]interface{}

type target struct {
	loc *core.Location
	sys *sys.System
}

// nullFirst: arrays are sets in the specification and TLC happens to write null last; the real
// code sorts arrays, and a null BEFORE other atoms is the order that exercises its comparison.
func nullFirst(x interface{}) interface{} {
	switch v := x.(type) {
	case map[string]interface{}:
		for k, y := range v {
			v[k] = nullFirst(y)
		}
	case []interface{}:
		out := make([]interface{}, 0, len(v))
		for _, y := range v {
			if y == nil {
				out = append(out, y)
			}
		}
		for _, y := range v {
			if y != nil {
				out = append(out, nullFirst(y))
			}
		}
		return out
	}
	return x
}

// hasPropKey: the document sets a property ("!..."): such documents go through a System that
// caches nothing, so that the location is opened again (from storage) for every later call.
func hasPropKey(doc map[string]interface{}) bool {
	for k := range doc {
		if len(k) > 1 && k[0] == '!' {
			return true
		}
	}
	return false
}

func newTarget(state, via string, reopen bool) target {
	ctx := core.NewContext("verif")
	ctx.Verbosity = core.NOTHING
	if via == "system" {
		conf := sys.SystemConfig{Storage: "mem", UnindexedState: state == "linear"}
		cont := sys.SystemControl{CachePending: true, LocationTTL: sys.Forever}
		if reopen {
			cont.LocationTTL = sys.Never
		}
		c := core.DefaultControl()
		c.Verbosity = core.NOTHING
		cont.DefaultLocControl = c
		// the built-in cron (never started): it parses schedules, so the add hook can fail
		cr, err := cron.NewCron(nil, time.Second, "verif", 100000)
		if err != nil {
			panic(err)
		}
		var cronner cron.Cronner = &cron.InternalCron{Cron: cr}
		if reopen {
			cronner = world.NewRecCron(true) // a System that does not cache wants a persistent cron
		}
		s, err := sys.NewSystem(ctx, conf, cont, cronner)
		if err != nil {
			panic(err)
		}
		return target{sys: s}
	}
	store, _ := core.NewMemStorage(ctx)
	var st core.State
	if state == "indexed" {
		st, _ = core.NewIndexedState(ctx, "T", store)
	} else {
		st, _ = core.NewLinearState(ctx, "T", store)
	}
	loc, err := core.NewLocation(ctx, "T", st, nil)
	if err != nil {
		panic(err)
	}
	c := core.DefaultControl()
	c.Verbosity = core.NOTHING
	loc.SetControl(c)
	return target{loc: loc}
}

type stepRes struct {
	Name     string
	Returned bool
	Panic    string
	C        string
	Val      interface{}
	Found    []J
}

func js(x interface{}) string { bs, _ := json.Marshal(x); return string(bs) }

func cp(m map[string]interface{}) core.Map {
	var out map[string]interface{}
	json.Unmarshal([]byte(js(m)), &out)
	return core.Map(out)
}

// call performs one API call on the target.
func (t target) call(name string, id string, doc map[string]interface{}) (string, interface{}, []J) {
	ctx := core.NewContext("verif")
	ctx.Verbosity = core.NOTHING
	found := []J{}
	enc1 := func(srs *core.SearchResults) {
		if srs == nil {
			return
		}
		for _, sr := range srs.Found {
			bss := []interface{}{}
			for _, b := range sr.Bindingss {
				bss = append(bss, map[string]interface{}(b))
			}
			found = append(found, J{"id": sr.Id, "bss": bss})
		}
	}
	tree := func(fr *core.FindRules) string {
		if fr == nil || fr.Disposition == nil || fr.Disposition.Msg != "complete" {
			return "error"
		}
		for _, er := range fr.Children {
			bss := []interface{}{}
			for _, b := range er.Bindingss {
				m := map[string]interface{}{}
				for k, v := range b {
					if k != "?event" && k != "?location" && k != "?ruleId" {
						m[k] = v
					}
				}
				bss = append(bss, m)
			}
			found = append(found, J{"id": er.Rule.Id, "bss": bss})
		}
		return "ok"
	}
	if t.sys != nil {
		s := t.sys
		switch name {
		case "AddFact":
			_, err := s.AddFact(ctx, "T", id, js(doc))
			return world.Classify(err), nil, found
		case "AddRule":
			_, err := s.AddRule(ctx, "T", id, js(doc))
			return world.Classify(err), nil, found
		case "GetFact":
			v, err := s.GetFact(ctx, "T", id)
			var m interface{}
			json.Unmarshal([]byte(v), &m)
			return world.Classify(err), m, found
		case "SearchFacts":
			srs, err := s.SearchFacts(ctx, "T", js(doc), true)
			enc1(srs)
			return world.Classify(err), nil, found
		case "SearchRules":
			_, err := s.SearchRules(ctx, "T", js(doc), true)
			return world.Classify(err), nil, found
		case "Query":
			_, err := s.Query(ctx, "T", js(doc))
			return world.Classify(err), nil, found
		case "ProcessEvent":
			fr, _ := s.ProcessEvent(ctx, "T", js(doc))
			return tree(fr), nil, found
		case "RemRule":
			_, err := s.RemRule(ctx, "T", id)
			return world.Classify(err), nil, found
		case "RemFact":
			_, err := s.RemFact(ctx, "T", id)
			return world.Classify(err), nil, found
		}
		panic(name)
	}
	loc := t.loc
	switch name {
	case "AddFact":
		_, err := loc.AddFact(ctx, id, cp(doc))
		return world.Classify(err), nil, found
	case "AddRule":
		_, err := loc.AddRule(ctx, id, cp(doc))
		return world.Classify(err), nil, found
	case "GetFact":
		m, err := loc.GetFact(ctx, id)
		return world.Classify(err), map[string]interface{}(m), found
	case "SearchFacts":
		srs, err := loc.SearchFacts(ctx, cp(doc), true)
		enc1(srs)
		return world.Classify(err), nil, found
	case "SearchRules":
		_, err := loc.SearchRules(ctx, cp(doc), true)
		return world.Classify(err), nil, found
	case "Query":
		_, err := loc.Query(ctx, js(doc))
		return world.Classify(err), nil, found
	case "ProcessEvent":
		fr, _ := loc.ProcessEvent(ctx, cp(doc))
		return tree(fr), nil, found
	case "RemRule":
		_, err := loc.RemRule(ctx, id)
		return world.Classify(err), nil, found
	case "RemFact":
		_, err := loc.RemFact(ctx, id)
		return world.Classify(err), nil, found
	}
	panic(name)
}

func guarded(hard time.Duration, name string, f func() (string, interface{}, []J)) stepRes {
	ch := make(chan stepRes, 1)
	go func() {
		r := stepRes{Name: name}
		defer func() {
			if x := recover(); x != nil {
				r.Returned, r.Panic = true, fmt.Sprintf("%v", x)
				if len(r.Panic) > 200 {
					r.Panic = r.Panic[:200]
				}
				ch <- r
			}
		}()
		r.C, r.Val, r.Found = f()
		r.Returned = true
		ch <- r
	}()
	select {
	case r := <-ch:
		return r
	case <-time.After(hard):
		return stepRes{Name: name, Returned: false}
	}
}

func main() {
	var (
		docs    = flag.String("docs", "docs.ndjson", "documents written by TLC (Totality.tla)")
		out     = flag.String("out", "total.ndjson", "output")
		journal = flag.String("journal", "total.journal", "what is about to be executed (for crash attribution)")
		stride  = flag.Int("stride", 1, "take every stride-th document")
		offset  = flag.Int("offset", 0, "start at this document")
		deep    = flag.Int("deep", 200, "nesting depth of the generated deep documents")
		sysEach = flag.Int("sysevery", 4, "every n-th document also goes through sys.System")
	)
	flag.Parse()
	core.DefaultLogger = core.NewSimpleLogger(ioutil.Discard)
	core.DefaultVerbosity = core.NOTHING
	t := enc.NewTables()
	data, err := ioutil.ReadFile(*docs)
	if err != nil {
		fmt.Fprintln(os.Stderr, err)
		os.Exit(2)
	}
	var all []map[string]interface{}
	for _, line := range strings.Split(string(data), "\n") {
		if strings.TrimSpace(line) == "" {
			continue
		}
		var x interface{}
		if err := json.Unmarshal([]byte(line), &x); err != nil {
			fmt.Fprintln(os.Stderr, "bad document line:", err)
			os.Exit(2)
		}
		if m, ok := nullFirst(enc.Decode(x)).(map[string]interface{}); ok {
			all = append(all, m)
		}
	}
	// deeply nested documents (not enumerable by TLC at this depth)
	var dm interface{} = "leaf"
	var da interface{} = "leaf"
	for i := 0; i < *deep; i++ {
		dm = map[string]interface{}{"n": dm}
		da = []interface{}{da}
	}
	all = append(all, map[string]interface{}{"deep": dm}, map[string]interface{}{"deep": da},
		map[string]interface{}{"when": map[string]interface{}{"pattern": map[string]interface{}{"deep": dm}}, "action": map[string]interface{}{"code": "1"}})

	jf, _ := os.Create(*journal)
	bf, _ := os.Create(*out)
	bw := bufio.NewWriterSize(bf, 1<<16)
	body := json.NewEncoder(bw)
	body.SetEscapeHTML(false)
	hard := 5 * time.Second
	canaryFact := map[string]interface{}{"canary": "yes", "n": 1.0}
	canaryRule := map[string]interface{}{"when": map[string]interface{}{"pattern": map[string]interface{}{"canary-event": "?v"}},
		"action": map[string]interface{}{"code": "1"}}
	uses := []string{"AddFact", "AddRule", "SearchFacts", "Query", "ProcessEvent", "SearchRules", "AddThenSearch"}
	n := 0
	for di := *offset; di < len(all); di += *stride {
		doc := all[di]
		for _, use := range uses {
			for _, state := range []string{"indexed", "linear"} {
				vias := []string{"direct"}
				if di%*sysEach == 0 || doc["schedule"] != nil || hasPropKey(doc) {
					vias = append(vias, "system")
				}
				for _, via := range vias {
					fmt.Fprintf(jf, "%s\n", js(J{"di": di, "doc": doc, "use": use, "state": state, "via": via}))
					jf.Sync()
					tg := newTarget(state, via, hasPropKey(doc))
					steps := []stepRes{}
					run := func(label, name, id string, d map[string]interface{}) bool {
						r := guarded(hard, label, func() (string, interface{}, []J) { return tg.call(name, id, d) })
						steps = append(steps, r)
						return r.Returned
					}
					var alive bool
					if use == "AddThenSearch" {
						// the document as a stored fact AND as the pattern searched with
						r := guarded(hard, "weird", func() (string, interface{}, []J) {
							tg.call("AddFact", "weird", doc)
							return tg.call("SearchFacts", "", doc)
						})
						steps = append(steps, r)
						alive = r.Returned
					} else {
						alive = run("weird", use, "weird", doc)
					}
					plan := []struct {
						label, name, id string
						d               map[string]interface{}
					}{
						{"c-add", "AddFact", "canary1", canaryFact},
						{"c-get", "GetFact", "canary1", nil},
						{"c-search", "SearchFacts", "", map[string]interface{}{"canary": "?x"}},
						{"c-addrule", "AddRule", "canaryrule", canaryRule},
						{"c-event", "ProcessEvent", "", map[string]interface{}{"canary-event": 7.0}},
						{"c-remrule", "RemRule", "canaryrule", nil},
						{"c-remfact", "RemFact", "canary1", nil},
						{"c-gone", "GetFact", "canary1", nil},
					}
					for _, p := range plan {
						if !alive {
							break // the location hangs: no point in queueing more calls behind it
						}
						alive = run(p.label, p.name, p.id, p.d)
					}
					ss := []interface{}{}
					for _, r := range steps {
						fnd := []interface{}{}
						for _, f := range r.Found {
							bss := []interface{}{}
							for _, b := range f["bss"].([]interface{}) {
								bss = append(bss, t.EncodeBindings(b.(map[string]interface{})))
							}
							fnd = append(fnd, J{"id": f["id"], "bss": bss})
						}
						ss = append(ss, J{"name": r.Name, "returned": r.Returned, "panic": r.Panic, "c": r.C,
							"val": t.Encode(r.Val), "found": fnd})
					}
					docjs := js(doc)
					if len(docjs) > 400 {
						docjs = docjs[:400] + "..."
					}
					body.Encode(J{"ev": "tot", "use": use, "state": state, "via": via, "steps": ss, "json": docjs, "di": di})
					bw.Flush()
					n++
				}
			}
		}
	}
	bw.Flush()
	bf.Close()
	fmt.Printf("cases=%d docs=%d out=%s\n", n, len(all), *out)
	os.Exit(0)
}
