// concdrv: rounds of concurrent requests (2-4 client goroutines, a few
// operations each) addressed to ONE location on shared ids, recorded as
// call / return lines ordered by a global sequence number, followed by the
// final in-memory and stored state, for spec/ConcTrace.tla (linearizability
// against Engine).  Built with -race by bin/check.
package main

import (
	"bufio"
	"encoding/json"
	"flag"
	"fmt"
	"math/rand"
	"os"
	"sort"
	"sync"
	"time"

	"github.com/Comcast/rulio/core"
	"verif/harness/world"
)

type J = map[string]interface{}

func main() {
	var (
		seed   = flag.Int64("seed", 1, "seed")
		rounds = flag.Int("rounds", 100, "number of rounds")
		out    = flag.String("out", "conc.ndjson", "output")
		watch  = flag.Duration("watchdog", 20*time.Second, "a round that takes longer is a deadlock")
		maxG   = flag.Int("clients", 4, "maximum number of client goroutines")
		perG   = flag.Int("ops", 3, "operations per client")
		via    = flag.String("via", "", "\"\" (core.Location) | system | http")
		layout = flag.String("layout", "shared", "shared: all clients use location A | own: client g owns location L<g> | both: alternate")
	)
	flag.Parse()
	hooks := world.InstallYieldHook(*seed)
	rec := world.NewRecorder(1000)
	all := []J{}
	r := rand.New(rand.NewSource(*seed))
	for round := 0; round < *rounds; round++ {
		state := []string{"indexed", "linear"}[round%2]
		ctx := core.NewContext("verif")
		ctx.Verbosity = core.NOTHING
		ms, _ := core.NewMemStorage(ctx)
		lay := *layout
		if lay == "both" {
			lay = []string{"shared", "own"}[(round/2)%2]
		}
		locs := []string{"A"}
		if lay == "own" {
			locs = []string{}
			for g := 1; g <= *maxG; g++ {
				locs = append(locs, fmt.Sprintf("L%d", g))
			}
		}
		cfg := world.Config{State: state, Store: "mem", MaxFacts: 1000, Locs: locs, Via: *via}
		if *via != "" {
			cfg.Sys.TTL = []string{"forever", "never", "1ms"}[(round/4)%3]
		}
		w, err := world.NewWorld(cfg, rec, ms)
		if err != nil {
			fmt.Fprintln(os.Stderr, err)
			os.Exit(2)
		}
		prof := world.Profile{Name: "conc", Locs: []string{"A"}, Ids: []string{"x1", "x2"}, Rules: true, Index: true, MaxFacts: 1000,
			Weights: map[string]int{"AddFact": 20, "RemFact": 10, "GetFact": 10, "SearchFacts": 10, "AddRule": 18, "RemRule": 8,
				"EnableRule": 6, "ProcessEvent": 18}}
		// a short sequential prefix so that rounds do not all start from the empty location
		pg := &world.Gen{R: rand.New(rand.NewSource(r.Int63())), P: prof, T: rec.T}
		locNames := []interface{}{}
		for _, n := range locs {
			locNames = append(locNames, n)
		}
		events := []J{{"ev": "round", "state": state, "round": round, "locs": locNames, "via": *via, "layout": lay, "ttl": cfg.Sys.TTL}}
		seq := 0
		var mu sync.Mutex
		stamp := func(ev J) {
			mu.Lock()
			seq++
			ev["seq"] = seq
			events = append(events, ev)
			mu.Unlock()
		}
		for i, n := 0, r.Intn(4); i < n && *via == ""; i++ {
			op := pg.Next()
			if op.Id == "" && (op.Op == "AddFact" || op.Op == "AddRule") {
				op.Id = "x1"
			}
			call := J{"ev": "call", "g": 0, "k": i}
			_, ev := w.Exec(op, false)
			for k, v := range ev {
				if k != "res" && k != "ev" {
					call[k] = v
				}
			}
			stamp(call)
			stamp(J{"ev": "ret", "g": 0, "k": i, "res": ev["res"]})
		}
		addedRules := []world.Op{}
		clients := 2 + r.Intn(*maxG-1)
		// every fifth round is about one rule being replaced while events that match it are processed:
		// one client rewrites the rule (same when, another action), the others send the matching event
		var directed [][]world.Op
		if round%5 >= 3 && *via == "" && lay == "shared" {
			for try := 0; try < 20 && directed == nil; try++ {
				base := pg.Rule()
				when, _ := base["when"].(map[string]interface{})
				pat, _ := when["pattern"].(map[string]interface{})
				if pat == nil {
					continue
				}
				evt := pg.EventFor(pat)
				if evt == nil {
					continue
				}
				version := func(code string) map[string]interface{} {
					return map[string]interface{}{"when": map[string]interface{}{"pattern": pat}, "action": map[string]interface{}{"code": code}}
				}
				op0 := world.Op{Op: "AddRule", Loc: "A", Id: "x1", Val: version("1")}
				call := J{"ev": "call", "g": 0, "k": 50}
				_, ev := w.Exec(op0, false)
				for k, v := range ev {
					if k != "res" && k != "ev" {
						call[k] = v
					}
				}
				stamp(call)
				stamp(J{"ev": "ret", "g": 0, "k": 50, "res": ev["res"]})
				writer := []world.Op{{Op: "AddRule", Loc: "A", Id: "x1", Val: version("2")}}
				if r.Intn(2) == 0 {
					writer = append(writer, world.Op{Op: "AddRule", Loc: "A", Id: "x1", Val: version("3")})
				}
				directed = [][]world.Op{writer}
				for g := 2; g <= clients; g++ {
					directed = append(directed, []world.Op{{Op: "ProcessEvent", Loc: "A", Val: evt}, {Op: "ProcessEvent", Loc: "A", Val: evt}})
				}
			}
		}
		var wg sync.WaitGroup
		startGate := make(chan bool)
		for g := 1; g <= clients; g++ {
			gen := &world.Gen{R: rand.New(rand.NewSource(r.Int63())), P: prof, T: rec.T}
			ops := []world.Op{}
			for k := 0; k < *perG && directed == nil; k++ {
				op := gen.Next()
				if op.Id == "" && (op.Op == "AddFact" || op.Op == "AddRule") {
					op.Id = "x2"
				}
				if lay == "own" {
					op.Loc = fmt.Sprintf("L%d", g)
				}
				if *via != "" && (op.Op == "GetRule" || op.Op == "SearchRules") {
					op.Op, op.Val = "GetFact", nil
				}
				ops = append(ops, op)
				if op.Op == "AddRule" {
					addedRules = append(addedRules, op)
				}
			}
			if directed != nil {
				ops = directed[g-1]
				for _, op := range ops {
					if op.Op == "AddRule" {
						addedRules = append(addedRules, op)
					}
				}
			}
			wg.Add(1)
			go func(g int, ops []world.Op) {
				defer wg.Done()
				<-startGate
				for k, op := range ops {
					// the call line carries the arguments; it is stamped before the call starts
					call := J{"ev": "call", "g": g, "k": k, "op": op.Op, "loc": op.Loc, "id": op.Id, "inh": op.Inh,
						"wk": "", "rk": "", "flag": op.Flag, "names": []string{}, "now": time.Now().Unix(), "rid": op.Id,
						"val": rec.T.Encode(valOf(op))}
					stamp(call)
					_, ev := w.Exec(op, false)
					stamp(J{"ev": "ret", "g": g, "k": k, "res": ev["res"]})
				}
			}(g, ops)
		}
		done := make(chan bool)
		go func() { wg.Wait(); close(done) }()
		close(startGate)
		select {
		case <-done:
		case <-time.After(*watch):
			fmt.Printf("DEADLOCK round=%d state=%s: clients did not finish within %v\n", round, state, *watch)
			dump(*out, rec, append(all, events...))
			os.Exit(3)
		}
		// probes: once every client is done, events made to match the rules written in this round are
		// processed one after the other; they come after every call in real time, so they have to see
		// the final rules (a stale parsed rule left in a cache shows here)
		probes := 0
		for _, ar := range addedRules {
			if probes >= 3 {
				break
			}
			when, _ := ar.Val["when"].(map[string]interface{})
			pat, _ := when["pattern"].(map[string]interface{})
			if pat == nil {
				continue
			}
			evt := pg.EventFor(pat)
			if evt == nil {
				continue
			}
			op := world.Op{Op: "ProcessEvent", Loc: ar.Loc, Val: evt}
			call := J{"ev": "call", "g": 0, "k": 100 + probes}
			_, ev := w.Exec(op, false)
			for k, v := range ev {
				if k != "res" && k != "ev" {
					call[k] = v
				}
			}
			stamp(call)
			stamp(J{"ev": "ret", "g": 0, "k": 100 + probes, "res": ev["res"]})
			probes++
		}
		// how many instances of locations the System has made (loaded) so far: under TTL forever, one per location
		newlocs := -1
		if w.Sys != nil {
			if st, err := w.Sys.GetStats(core.NewContext("verif")); err == nil {
				newlocs = int(st.NewLocations)
			}
		}
		// final state: what every location returns for every id storage or memory may hold, and what storage holds
		mem := J{}
		disk := w.DiskIds()
		for _, ln := range locs {
			lm := J{}
			ids := map[string]bool{"x1": true, "x2": true, "!x1.disabled": true, "!x2.disabled": true}
			for _, id := range disk[ln].([]string) {
				ids[id] = true
			}
			keys := []string{}
			for id := range ids {
				keys = append(keys, id)
			}
			sort.Strings(keys)
			for _, id := range keys {
				res, _ := w.Exec(world.Op{Op: "GetFact", Loc: ln, Id: id}, false)
				if res.C == "ok" {
					rec.T.NoteString(id)
					lm[id] = rec.T.Encode(res.Val)
				}
			}
			mem[ln] = lm
		}
		mu.Lock()
		seq++
		events = append(events, J{"ev": "final", "seq": seq, "disk": disk, "mem": mem, "newlocs": newlocs})
		mu.Unlock()
		all = append(all, events...)
	}
	dump(*out, rec, all)
	fmt.Printf("rounds=%d events=%d hooks=%v hookpoints=%v out=%s\n", *rounds, len(all), hooks, world.HookCounts, *out)
}

func valOf(op world.Op) interface{} {
	if op.Val == nil {
		return nil
	}
	return map[string]interface{}(op.Val)
}

func dump(path string, rec *world.Recorder, events []J) {
	f, _ := os.Create(path)
	w := bufio.NewWriterSize(f, 1<<20)
	je := json.NewEncoder(w)
	je.SetEscapeHTML(false)
	je.Encode(rec.T.Header(J{"max": 1000}))
	for _, e := range events {
		je.Encode(e)
	}
	w.Flush()
	f.Close()
}
