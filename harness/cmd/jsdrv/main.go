// jsdrv: runs scripts of the C14 families (value, throw, syntax, loop, slow)
// under several time limits through Location.RunJavascript, as a rule
// condition and as a rule action, with a hard watchdog per call, and records
// what came back and when for spec/JsTrace.tla.
package main

import (
	"bufio"
	"encoding/json"
	"flag"
	"fmt"
	"io/ioutil"
	"os"
	"time"

	"github.com/Comcast/rulio/core"
	"verif/harness/enc"
)

type J = map[string]interface{}

func script(class string, durMs int) string {
	switch class {
	case "value":
		return "JSON.stringify({x: x, y: y, n: x + 1})"
	case "throw":
		return "throw 'no'"
	case "syntax":
		return "syntax error("
	case "loop":
		return "while (true) {}"
	case "loopcatch":
		// never finishes AND catches whatever is thrown at it: being stopped must not be something a script can catch
		return "for (;;) { try { while (true) {} } catch (e) {} }"
	case "loopfor":
		// a for statement with no test, no update and an empty body: the interpreter evaluates nothing per
		// iteration, so it never looks at its interrupt channel (known finding KF-C14-empty-for)
		return "for (;;) {}"
	case "slow":
		return fmt.Sprintf("var t0 = new Date().getTime(); while (new Date().getTime() - t0 < %d) {}; 'slept'", durMs)
	}
	panic(class)
}

func limitMs(d time.Duration) int {
	if d < 0 {
		return -1
	}
	return int(d / time.Millisecond)
}

func newLoc(limit time.Duration) (*core.Location, *core.Context) {
	ctx := core.NewContext("verif")
	ctx.Verbosity = core.NOTHING
	store, _ := core.NewMemStorage(ctx)
	st, _ := core.NewIndexedState(ctx, "J", store)
	loc, err := core.NewLocation(ctx, "J", st, nil)
	if err != nil {
		panic(err)
	}
	c := core.DefaultControl()
	c.Verbosity = core.NOTHING
	c.JavascriptTimeout = core.Duration(limit)
	loc.SetControl(c)
	return loc, ctx
}

type outcome struct {
	returned bool
	elapsed  time.Duration
	err      bool
	msg      string
	val      interface{}
	nodeOk   bool // for cond/action paths: disposition of the node complete
}

// guard runs f with a hard limit; a call that does not come back is reported, not waited for.
func guard(hard time.Duration, f func() outcome) outcome {
	ch := make(chan outcome, 1)
	start := time.Now()
	go func() {
		defer func() {
			if x := recover(); x != nil {
				ch <- outcome{returned: true, elapsed: time.Since(start), err: true, msg: fmt.Sprintf("PANIC %v", x)}
			}
		}()
		o := f()
		o.returned, o.elapsed = true, time.Since(start)
		ch <- o
	}()
	select {
	case o := <-ch:
		return o
	case <-time.After(hard):
		return outcome{returned: false, elapsed: hard}
	}
}

func main() {
	var (
		out  = flag.String("out", "js.ndjson", "output")
		reps = flag.Int("reps", 1, "repetitions of the whole matrix")
	)
	flag.Parse()
	core.DefaultLogger = core.NewSimpleLogger(ioutil.Discard)
	core.DefaultVerbosity = core.NOTHING
	core.SystemParameters.JavascriptTimeouts = true
	t := enc.NewTables()
	events := []J{}
	hard := 6 * time.Second

	type cse struct {
		class string
		limit time.Duration // 0: system default (60s); <0: disabled
		dur   int
	}
	cases := []cse{}
	for _, lim := range []time.Duration{50 * time.Millisecond, 200 * time.Millisecond, 0, -1} {
		for _, cl := range []string{"value", "throw", "syntax"} {
			cases = append(cases, cse{cl, lim, 0})
		}
		if lim > 0 {
			cases = append(cases, cse{"loop", lim, 0})
			cases = append(cases, cse{"loopcatch", lim, 0})
			cases = append(cases, cse{"slow", lim, int(lim/time.Millisecond) / 4})     // well under the limit
			cases = append(cases, cse{"slow", lim, int(lim/time.Millisecond)*3 + 200}) // well over it
		} else {
			cases = append(cases, cse{"slow", lim, 60})
		}
	}
	// which limit applies: with a small system default, a location whose own limit is negative has none,
	// and a location without an own limit gets the default
	special := []cse{{"slow", -1, 450}, {"slow", 0, 450}, {"value", -1, 0}}
	// last of all, once: the script nothing stops (each one leaves a spinning goroutine behind, which must
	// not disturb the timing of the other cases)
	unstoppable := []cse{{"loopfor", 50 * time.Millisecond, 0}}
	for r := 0; r < *reps; r++ {
		all := append(append([]cse{}, cases...), special...)
		if r == *reps-1 {
			all = append(all, unstoppable...)
		}
		for ci, c := range all {
			h := hard
			if c.class == "loopfor" {
				h = 2 * time.Second
			}
			defaultMs := 60000
			if ci >= len(cases) && ci < len(cases)+len(special) {
				core.SystemParameters.DefaultJavascriptTimeout = 150 * time.Millisecond
				defaultMs = 150
			} else {
				core.SystemParameters.DefaultJavascriptTimeout = 60 * time.Second
			}
			src := script(c.class, c.dur)
			for _, path := range []string{"run", "cond", "action"} {
				if path != "run" && c.class == "syntax" {
					// a rule whose script does not compile is refused when it is added
					loc, ctx := newLoc(c.limit)
					rule := J{"when": J{"pattern": J{"go": "?x"}}, "action": J{"code": src}}
					if path == "cond" {
						rule = J{"when": J{"pattern": J{"go": "?x"}}, "condition": J{"code": src}, "action": J{"code": "1"}}
					}
					_, err := loc.AddRule(ctx, "r", core.Map(rule))
					if err != nil {
						events = append(events, J{"ev": "js", "path": path + "-add", "class": c.class, "limit_ms": limitMs(c.limit),
							"dur_ms": c.dur, "returned": true, "elapsed_ms": 0, "err": true, "val": t.Encode(nil), "node_ok": false, "msg": "", "default_ms": defaultMs})
						continue
					}
					// accepted: then it has to fail on its node when an event runs it
					o := guard(h, func() outcome {
						fr, _ := loc.ProcessEvent(ctx, core.Map{"go": 1.0})
						o := outcome{}
						if fr == nil || len(fr.Children) != 1 || len(fr.Children[0].Children) != 1 {
							o.err, o.msg = true, "unexpected work tree"
							return o
						}
						erc := fr.Children[0].Children[0]
						if erc.Disposition == nil || erc.Disposition.Msg != "complete" {
							o.err = true
							return o
						}
						for _, era := range erc.Children {
							if era.Disposition == nil || era.Disposition.Msg != "complete" {
								o.err = true
							}
						}
						return o
					})
					events = append(events, J{"ev": "js", "path": path, "class": c.class, "limit_ms": limitMs(c.limit),
						"dur_ms": c.dur, "returned": o.returned, "elapsed_ms": int(o.elapsed / time.Millisecond), "err": o.err,
						"val": t.Encode(nil), "node_ok": !o.err, "msg": o.msg, "default_ms": defaultMs})
					continue
				}
				loc, ctx := newLoc(c.limit)
				var o outcome
				switch path {
				case "run":
					o = guard(h, func() outcome {
						bs := core.Bindings{"x": 1.0, "y": "a"}
						v, err := loc.RunJavascript(ctx, src, nil, &bs, nil)
						o := outcome{err: err != nil, val: v}
						if err != nil {
							o.msg = err.Error()
						}
						return o
					})
				case "cond", "action":
					rule := J{"when": J{"pattern": J{"x": "?x", "y": "?y"}}, "action": J{"code": src}}
					if path == "cond" {
						cond := src
						if c.class == "value" {
							cond = "x + 1 == 2 && y == 'a'"
						}
						rule = J{"when": J{"pattern": J{"x": "?x", "y": "?y"}}, "condition": J{"code": cond}, "action": J{"code": "'acted'"}}
					}
					if _, err := loc.AddRule(ctx, "r", core.Map(rule)); err != nil {
						panic(err)
					}
					o = guard(h, func() outcome {
						fr, _ := loc.ProcessEvent(ctx, core.Map{"x": 1.0, "y": "a"})
						o := outcome{}
						if fr == nil || len(fr.Children) != 1 || len(fr.Children[0].Children) != 1 {
							o.err, o.msg = true, "unexpected work tree"
							return o
						}
						erc := fr.Children[0].Children[0]
						if path == "cond" {
							o.nodeOk = erc.Disposition != nil && erc.Disposition.Msg == "complete"
							o.err = !o.nodeOk
							if o.nodeOk {
								o.val = float64(len(erc.Children)) // 1: the condition kept the binding
							} else if erc.Disposition != nil {
								o.msg = erc.Disposition.Msg
							}
							return o
						}
						if len(erc.Children) != 1 {
							o.err, o.msg = true, "no action node"
							return o
						}
						era := erc.Children[0]
						o.nodeOk = era.Disposition != nil && era.Disposition.Msg == "complete"
						o.err = !o.nodeOk
						o.val = era.Value
						if !o.nodeOk && era.Disposition != nil {
							o.msg = era.Disposition.Msg
						}
						return o
					})
				}
				var v interface{} = o.val
				if s, ok := v.(string); ok && len(s) > 0 && s[0] == '{' {
					var m interface{}
					if json.Unmarshal([]byte(s), &m) == nil {
						v = m
					}
				}
				if len(o.msg) > 200 {
					o.msg = o.msg[:200]
				}
				events = append(events, J{"ev": "js", "path": path, "class": c.class, "limit_ms": limitMs(c.limit),
					"dur_ms": c.dur, "returned": o.returned, "elapsed_ms": int(o.elapsed / time.Millisecond), "err": o.err,
					"val": t.Encode(v), "node_ok": o.nodeOk, "msg": o.msg, "default_ms": defaultMs})
				if path == "cond" && c.class == "throw" {
					// the same throwing script as the second disjunct of an `or` whose first disjunct succeeds
					loc2, ctx2 := newLoc(c.limit)
					rule := J{"when": J{"pattern": J{"x": "?x", "y": "?y"}}, "action": J{"code": "'acted'"},
						"condition": J{"or": []interface{}{J{"code": "x === 1"}, J{"code": src}}}}
					if _, err := loc2.AddRule(ctx2, "r", core.Map(rule)); err != nil {
						panic(err)
					}
					o2 := guard(h, func() outcome {
						fr, _ := loc2.ProcessEvent(ctx2, core.Map{"x": 1.0, "y": "a"})
						o := outcome{}
						if fr == nil || len(fr.Children) != 1 || len(fr.Children[0].Children) != 1 {
							o.err, o.msg = true, "unexpected work tree"
							return o
						}
						erc := fr.Children[0].Children[0]
						o.nodeOk = erc.Disposition != nil && erc.Disposition.Msg == "complete"
						o.err = !o.nodeOk
						return o
					})
					events = append(events, J{"ev": "js", "path": "cond-or", "class": c.class, "limit_ms": limitMs(c.limit),
						"dur_ms": c.dur, "returned": o2.returned, "elapsed_ms": int(o2.elapsed / time.Millisecond), "err": o2.err,
						"val": t.Encode(nil), "node_ok": o2.nodeOk, "msg": o2.msg, "default_ms": defaultMs})
				}
			}
		}
	}
	f, _ := os.Create(*out)
	w := bufio.NewWriter(f)
	je := json.NewEncoder(w)
	je.SetEscapeHTML(false)
	je.Encode(t.Header(J{"max": 0}))
	for _, e := range events {
		je.Encode(e)
	}
	w.Flush()
	f.Close()
	fmt.Printf("cases=%d out=%s\n", len(events), *out)
	os.Exit(0) // do not wait for scripts that never came back
}
