// enginedrv: runs seeded random histories of the location API against the
// real code and writes one trace file for spec/EngineTrace.tla.
package main

import (
	"flag"
	"fmt"
	"math/rand"
	"os"
	"sync"
	"time"

	"github.com/Comcast/rulio/core"
	"verif/harness/world"
)

func profiles() map[string]world.Profile {
	facts := map[string]int{"AddFact": 30, "RemFact": 12, "GetFact": 12, "SearchFacts": 25}
	cascade := map[string]int{"AddFact": 30, "RemFact": 14, "GetFact": 8, "SearchFacts": 8, "AddRule": 8,
		"RemRule": 6, "EnableRule": 8, "ListRules": 3}
	rules := map[string]int{"AddFact": 8, "RemFact": 6, "AddRule": 25, "RemRule": 10, "GetRule": 5,
		"EnableRule": 8, "ListRules": 4, "SearchRules": 6, "ProcessEvent": 30, "Clear": 2, "SearchFacts": 4}
	expiry := map[string]int{"AddFact": 25, "AddRule": 10, "GetFact": 12, "SearchFacts": 12, "GetRule": 4,
		"ProcessEvent": 10, "RemFact": 4, "Reload": 6, "Sleep": 8, "ListRules": 3, "SearchRules": 3}
	guards := map[string]int{"AddFact": 12, "RemFact": 6, "GetFact": 6, "SearchFacts": 6, "AddRule": 8, "RemRule": 5,
		"GetRule": 4, "EnableRule": 5, "SetParents": 4, "GetParents": 2, "Clear": 3, "StateSize": 4, "ListRules": 4,
		"SearchRules": 4, "ProcessEvent": 6, "SetReadOnly": 5, "SetKey": 14}
	capacity := map[string]int{"AddFact": 30, "AddRule": 12, "RemFact": 10, "RemRule": 5, "EnableRule": 6,
		"StateSize": 10, "GetFact": 5, "Clear": 2}
	parents := map[string]int{"AddFact": 18, "RemFact": 5, "AddRule": 14, "RemRule": 5, "SetParents": 10, "GetParents": 4,
		"SearchFacts": 14, "ProcessEvent": 14, "ListRules": 5, "SearchRules": 5, "EnableRule": 5, "GetFact": 4}
	lifecycle := map[string]int{"AddRule": 22, "RemRule": 8, "EnableRule": 14, "ProcessEvent": 30, "Reload": 6,
		"SetKey": 4, "AddFact": 4, "RemFact": 3, "SetParents": 8, "GetRule": 3, "ListRules": 3}
	dispatch := map[string]int{"AddFact": 22, "RemFact": 6, "AddRule": 18, "RemRule": 5, "ProcessEvent": 40, "EnableRule": 4, "SetParents": 8}
	index := map[string]int{"AddRule": 30, "RemRule": 14, "AddFact": 5, "RemFact": 3, "EnableRule": 4, "Clear": 3,
		"ProcessEvent": 45, "SearchRules": 5, "Reload": 2}
	system := map[string]int{"CreateLocation": 6, "AddFact": 20, "RemFact": 8, "GetFact": 8, "SearchFacts": 12, "AddRule": 12,
		"RemRule": 6, "GetRule": 3, "EnableRule": 6, "SetParents": 5, "GetParents": 2, "Clear": 2, "StateSize": 3,
		"ListRules": 4, "SearchRules": 3, "ProcessEvent": 14}
	svc := map[string]int{"CreateLocation": 4, "AddFact": 22, "RemFact": 8, "GetFact": 12, "SearchFacts": 12, "AddRule": 12,
		"RemRule": 6, "EnableRule": 6, "SetParents": 5, "GetParents": 3, "Clear": 2, "StateSize": 3,
		"ListRules": 4, "ProcessEvent": 12, "BadRequest": 8}
	expiryRules := map[string]int{"AddRule": 22, "RemRule": 4, "ProcessEvent": 40, "Sleep": 10, "Reload": 4, "GetRule": 4,
		"ListRules": 3, "SearchRules": 5, "AddFact": 3}
	ids := []string{"f1", "f2", "f3"}
	return map[string]world.Profile{
		"facts":        {Name: "facts", Len: 40, Locs: []string{"A"}, Ids: ids, MaxFacts: 1000, Weights: facts},
		"cascade":      {Name: "cascade", Len: 40, Locs: []string{"A"}, Ids: []string{"f1", "f2", "f3", "f4"}, MaxFacts: 1000, Weights: cascade, Cascade: true},
		"rules":        {Name: "rules", Len: 40, Locs: []string{"A"}, Ids: []string{"r1", "r2", "f1"}, Rules: true, MaxFacts: 1000, Weights: rules},
		"expiry":       {Name: "expiry", Len: 30, Locs: []string{"A"}, Ids: ids, Rules: true, Expiry: true, Cascade: true, MaxFacts: 1000, Weights: expiry},
		"guards":       {Name: "guards", Len: 50, Locs: []string{"A", "B"}, Ids: ids, Rules: true, Keys: true, Parents: true, SideEffects: true, MaxFacts: 1000, Weights: guards},
		"capacity":     {Name: "capacity", Len: 40, Locs: []string{"A"}, Ids: []string{"f1", "f2", "f3", "f4", "f5"}, Rules: true, MaxFacts: 3, Weights: capacity},
		"lifecycle":    {Name: "lifecycle", Len: 45, Locs: []string{"A", "B"}, Ids: []string{"r1", "r2"}, Rules: true, Parents: true, Scheduled: true, MaxFacts: 1000, Weights: lifecycle},
		"dispatch":     {Name: "dispatch", Len: 40, Locs: []string{"A", "B"}, Ids: []string{"r1", "r2", "r3", "f1", "f2"}, Rules: true, Dispatch: true, Parents: true, MaxFacts: 1000, Weights: dispatch},
		"index":        {Name: "index", Len: 50, Locs: []string{"A"}, Ids: []string{"r1", "r2", "r3", "r4"}, Rules: true, Index: true, Scheduled: true, MaxFacts: 1000, Weights: index},
		"system":       {Name: "system", Len: 50, Locs: []string{"A", "B", "C"}, Ids: []string{"f1", "f2", "r1", "r2"}, Rules: true, Parents: true, Cascade: true, MaxFacts: 1000, Weights: system},
		"service":      {Name: "service", Len: 50, Locs: []string{"A", "B"}, Ids: []string{"f1", "r 1", "a\"b", "x&y=z", "%25+\u00fc"}, Rules: true, Parents: true, MaxFacts: 1000, Weights: svc},
		"expiry-rules": {Name: "expiry-rules", Len: 36, Locs: []string{"A"}, Ids: []string{"r1", "r2", "r3"}, Rules: true, Index: true, Expiry: true, MaxFacts: 1000, Weights: expiryRules},
		"parents":      {Name: "parents", Len: 45, Locs: []string{"A", "B", "C"}, Ids: []string{"f1", "f2", "r1", "r2"}, Rules: true, Parents: true, SideEffects: true, MaxFacts: 1000, Weights: parents},
	}
}

func main() {
	var (
		prof   = flag.String("profile", "facts", "operation mix")
		seed   = flag.Int64("seed", 1, "seed")
		n      = flag.Int("n", 20, "number of traces")
		length = flag.Int("len", 0, "operations per trace (0: profile default)")
		state  = flag.String("state", "both", "indexed|linear|both")
		store  = flag.String("store", "mem", "mem|bolt")
		out    = flag.String("out", "trace.ndjson", "output file")
		par    = flag.Int("par", 8, "traces run concurrently")
		mixed  = flag.Bool("mixed-events", false, "events may hold arrays of mixed scalar types")
		via    = flag.String("via", "", "\"\" (core.Location) | system (sys.System)")
		ttl    = flag.String("ttl", "all", "location cache TTL for -via system: never|1ms|forever|all (rotate)")
		check  = flag.String("check", "both", "existence checking for -via system: on|off|both (rotate)")
	)
	flag.Parse()
	p, ok := profiles()[*prof]
	if !ok {
		fmt.Fprintln(os.Stderr, "unknown profile", *prof)
		os.Exit(2)
	}
	p.MixedEvents = *mixed
	if *length > 0 {
		p.Len = *length
	}
	rec := world.NewRecorder(p.MaxFacts)
	states := []string{"indexed", "linear"}
	if *state != "both" {
		states = []string{*state}
	}
	sem := make(chan bool, *par)
	var wg sync.WaitGroup
	var mu sync.Mutex
	voided := 0
	for i := 0; i < *n; i++ {
		for _, st := range states {
			wg.Add(1)
			sem <- true
			go func(i int, st string) {
				defer wg.Done()
				defer func() { <-sem }()
				for attempt := 0; attempt < 3; attempt++ {
					g := &world.Gen{R: rand.New(rand.NewSource(*seed*1000003 + int64(i))), P: p, T: rec.T}
					ctx := core.NewContext("verif")
					ctx.Verbosity = core.NOTHING
					ms, _ := core.NewMemStorage(ctx)
					_ = store
					cfg := world.Config{State: st, Store: "mem", MaxFacts: p.MaxFacts, Locs: p.Locs, Via: *via}
					if *via == "system" || *via == "http" {
						cfg.Sys.TTL = *ttl
						if *ttl == "all" {
							cfg.Sys.TTL = []string{"never", "1ms", "forever"}[i%3]
						}
						cfg.Sys.CheckExistence = *check == "on" || (*check == "both" && (i/3)%2 == 0)
					}
					w, err := world.NewWorld(cfg, rec, ms)
					if err != nil {
						fmt.Fprintln(os.Stderr, "world:", err)
						os.Exit(2)
					}
					for k := 0; k < p.Len; k++ {
						op := g.Next()
						if op.Op == "Sleep" {
							time.Sleep(1100 * time.Millisecond)
							continue
						}
						w.Do(op)
					}
					if w.Void() {
						mu.Lock()
						voided++
						mu.Unlock()
						continue
					}
					rec.Append(w.Events)
					return
				}
			}(i, st)
		}
	}
	wg.Wait()
	if err := rec.Write(*out, map[string]interface{}{"profile": p.Name, "seed": *seed}); err != nil {
		fmt.Fprintln(os.Stderr, err)
		os.Exit(2)
	}
	fmt.Printf("events=%d voided=%d out=%s\n", rec.Len(), voided, *out)
}
