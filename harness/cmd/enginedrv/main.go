// enginedrv: runs seeded random histories of the location API against the
// real code and writes one trace file for spec/EngineTrace.tla.
package main

import (
	"encoding/json"
	"flag"
	"fmt"
	"io/ioutil"
	"math/rand"
	"os"
	"sort"
	"strings"
	"sync"
	"time"

	"github.com/Comcast/rulio/core"
	"github.com/Comcast/rulio/storage/bolt"
	"verif/harness/enc"
	"verif/harness/world"
)

func profiles() map[string]world.Profile {
	facts := map[string]int{"AddFact": 30, "RemFact": 12, "GetFact": 12, "SearchFacts": 25}
	cascade := map[string]int{"AddFact": 30, "RemFact": 14, "GetFact": 8, "SearchFacts": 8, "AddRule": 8,
		"RemRule": 6, "EnableRule": 8, "ListRules": 3}
	rules := map[string]int{"AddFact": 8, "RemFact": 6, "AddRule": 25, "RemRule": 10, "GetRule": 5,
		"EnableRule": 8, "ListRules": 4, "SearchRules": 6, "ProcessEvent": 30, "Clear": 2, "SearchFacts": 4}
	expiry := map[string]int{"AddFact": 25, "AddRule": 10, "GetFact": 12, "SearchFacts": 12, "GetRule": 4,
		"ProcessEvent": 10, "RemFact": 4, "Reload": 6, "Sleep": 8, "ListRules": 3, "SearchRules": 3}
	guards := map[string]int{"AddFact": 12, "RemFact": 6, "GetFact": 6, "SearchFacts": 6, "AddRule": 8, "RemRule": 5,
		"GetRule": 4, "EnableRule": 5, "SetParents": 4, "GetParents": 2, "Clear": 3, "StateSize": 4, "ListRules": 4,
		"SearchRules": 4, "ProcessEvent": 6, "SetReadOnly": 5, "SetKey": 14}
	// protected locations whose rules write: rules with Env.AddFact actions, keys and read-only mode
	// coming and going, events (mostly made to match a stored rule) from callers with and without keys
	guardacts := map[string]int{"AddFact": 6, "RemFact": 3, "GetFact": 5, "AddRule": 16, "RemRule": 2, "EnableRule": 2,
		"Clear": 1, "StateSize": 3, "ProcessEvent": 30, "SetReadOnly": 8, "SetKey": 12}
	capacity := map[string]int{"AddFact": 30, "AddRule": 12, "RemFact": 10, "RemRule": 5, "EnableRule": 6,
		"StateSize": 10, "GetFact": 5, "Clear": 2}
	parents := map[string]int{"AddFact": 18, "RemFact": 5, "AddRule": 14, "RemRule": 5, "SetParents": 10, "GetParents": 6,
		"SearchFacts": 14, "ProcessEvent": 14, "ListRules": 5, "SearchRules": 5, "EnableRule": 5, "GetFact": 4, "Clear": 4, "SetParentsFact": 5}
	lifecycle := map[string]int{"AddRule": 22, "RemRule": 8, "EnableRule": 14, "ProcessEvent": 30, "Reload": 6,
		"SetKey": 4, "AddFact": 4, "RemFact": 3, "SetParents": 8, "GetRule": 3, "ListRules": 3}
	dispatch := map[string]int{"AddFact": 22, "RemFact": 6, "AddRule": 18, "RemRule": 5, "ProcessEvent": 40, "EnableRule": 4, "SetParents": 8}
	index := map[string]int{"AddRule": 30, "RemRule": 14, "AddFact": 5, "RemFact": 3, "EnableRule": 4, "Clear": 3,
		"ProcessEvent": 45, "SearchRules": 5, "Reload": 2}
	system := map[string]int{"CreateLocation": 6, "AddFact": 20, "RemFact": 8, "GetFact": 8, "SearchFacts": 12, "AddRule": 12,
		"RemRule": 6, "GetRule": 3, "EnableRule": 6, "SetParents": 5, "GetParents": 2, "Clear": 2, "StateSize": 3,
		"ListRules": 4, "SearchRules": 3, "ProcessEvent": 14}
	svc := map[string]int{"CreateLocation": 4, "AddFact": 22, "RemFact": 8, "GetFact": 12, "SearchFacts": 12, "AddRule": 12,
		"RemRule": 6, "EnableRule": 6, "SetParents": 5, "GetParents": 3, "Clear": 2, "StateSize": 3,
		"ListRules": 4, "ProcessEvent": 12, "BadRequest": 8}
	expiryRules := map[string]int{"AddRule": 22, "RemRule": 4, "ProcessEvent": 40, "Sleep": 10, "Reload": 4, "GetRule": 4,
		"ListRules": 3, "SearchRules": 5, "AddFact": 3}
	cronw := map[string]int{"AddRule": 26, "RemRule": 8, "RemFact": 6, "AddFact": 12, "EnableRule": 10, "Clear": 2, "Tick": 22,
		"ProcessEvent": 6, "ListRules": 2, "Restart": 4, "GetRule": 3}
	ids := []string{"f1", "f2", "f3"}
	return map[string]world.Profile{
		"facts":     {Name: "facts", BadRuleFacts: true, Len: 40, Locs: []string{"A"}, Ids: ids, MaxFacts: 1000, Weights: facts},
		"cascade":   {Name: "cascade", Len: 40, Locs: []string{"A"}, Ids: []string{"f1", "f2", "f3", "f4"}, MaxFacts: 1000, Weights: cascade, Cascade: true},
		"rules":     {Name: "rules", Len: 40, Locs: []string{"A"}, Ids: []string{"r1", "r2", "f1"}, Rules: true, MaxFacts: 1000, Weights: rules},
		"expiry":    {Name: "expiry", Len: 30, Locs: []string{"A"}, Ids: ids, Rules: true, Expiry: true, Cascade: true, MaxFacts: 1000, Weights: expiry},
		"guards":    {Name: "guards", Len: 50, Locs: []string{"A", "B"}, Ids: ids, Rules: true, Keys: true, Parents: true, SideEffects: true, MaxFacts: 1000, Weights: guards},
		"guardacts": {Name: "guardacts", Len: 45, Locs: []string{"A"}, Ids: []string{"r1", "r2", "f1"}, Rules: true, Keys: true, SideEffects: true, MaxFacts: 1000, Weights: guardacts},
		"cascadeq": {Name: "cascadeq", Len: 40, Locs: []string{"A"}, Ids: []string{"f1", "f2", "?q", "?x", strings.Repeat("L", 1100)}, MaxFacts: 1000, Cascade: true,
			Weights: map[string]int{"AddFact": 30, "RemFact": 16, "GetFact": 10}}, // ids that look like pattern variables
		"fan": {Name: "fan", Len: 40, Locs: []string{"A"}, Ids: []string{"f1", "f2", "f3", "f4", "f5", "f6"}, MaxFacts: 1000, Cascade: true, Fan: true,
			Weights: map[string]int{"AddFact": 40, "RemFact": 12, "GetFact": 6, "SearchFacts": 4}},
		"expfan": {Name: "expfan", Len: 26, Locs: []string{"A"}, Ids: []string{"f1", "f2", "f3", "f4", "f5", "f6"}, MaxFacts: 1000, Cascade: true, Fan: true, Expiry: true,
			Weights: map[string]int{"AddFact": 45, "GetFact": 10, "SearchFacts": 6, "RemFact": 3, "Sleep": 3, "SleepReload": 10}},
		"guardinh": {Name: "guardinh", Len: 45, Locs: []string{"A", "B"}, Ids: []string{"f1", "f2", "r1"}, Rules: true, Keys: true, Parents: true, MaxFacts: 1000,
			// inherited reads at a child whose parent is protected or disabled, by callers with and without keys
			Weights: map[string]int{"AddFact": 14, "AddRule": 6, "SetKey": 18, "SearchFacts": 24, "SearchRules": 5, "ListRules": 6, "ProcessEvent": 8, "SetParents": 5, "GetFact": 4}},
		"capacity":     {Name: "capacity", Len: 40, Locs: []string{"A"}, Ids: []string{"f1", "f2", "f3", "f4", "f5"}, Rules: true, MaxFacts: 3, Weights: capacity},
		"lifecycle":    {Name: "lifecycle", Len: 45, Locs: []string{"A", "B"}, Ids: []string{"r1", "r2"}, Rules: true, Parents: true, Scheduled: true, MaxFacts: 1000, Weights: lifecycle},
		"dispatch":     {Name: "dispatch", Len: 40, Locs: []string{"A", "B"}, Ids: []string{"r1", "r2", "r3", "f1", "f2"}, Rules: true, Dispatch: true, Parents: true, MaxFacts: 1000, Weights: dispatch},
		"index":        {Name: "index", Len: 50, Locs: []string{"A"}, Ids: []string{"r1", "r2", "r3", "r4"}, Rules: true, Index: true, Scheduled: true, MaxFacts: 1000, Weights: index},
		"system":       {Name: "system", Len: 50, Locs: []string{"A", "B", "C"}, Ids: []string{"f1", "f2", "r1", "r2"}, Rules: true, Parents: true, Cascade: true, MaxFacts: 1000, Weights: system},
		"service":      {Name: "service", Len: 50, Locs: []string{"A", "B"}, Ids: []string{"f1", "r 1", "a\"b", "x&y=z", "%25+\u00fc"}, Rules: true, Parents: true, MaxFacts: 1000, Weights: svc},
		"expiry-rules": {Name: "expiry-rules", Len: 36, Locs: []string{"A"}, Ids: []string{"r1", "r2", "r3"}, Rules: true, Index: true, Expiry: true, MaxFacts: 1000, Weights: expiryRules},
		"cron":         {Name: "cron", Len: 45, Locs: []string{"A", "B"}, Ids: []string{"r1", "r2", "base"}, Rules: true, Cron: true, MaxFacts: 1000, Weights: cronw},
		"parents":      {Name: "parents", Len: 45, Locs: []string{"A", "B", "C"}, Ids: []string{"f1", "f2", "r1", "r2"}, Rules: true, Parents: true, SideEffects: true, MaxFacts: 1000, Weights: parents},
	}
}

func main() {
	var (
		prof   = flag.String("profile", "facts", "operation mix")
		seed   = flag.Int64("seed", 1, "seed")
		n      = flag.Int("n", 20, "number of traces")
		length = flag.Int("len", 0, "operations per trace (0: profile default)")
		state  = flag.String("state", "both", "indexed|linear|both")
		store  = flag.String("store", "mem", "mem|bolt")
		out    = flag.String("out", "trace.ndjson", "output file")
		par    = flag.Int("par", 8, "traces run concurrently")
		mixed  = flag.Bool("mixed-events", false, "events may hold arrays of mixed scalar types")
		faults = flag.Bool("faults", false, "inject one storage failure in the second half of each trace")
		via    = flag.String("via", "", "\"\" (core.Location) | system (sys.System)")
		ttl    = flag.String("ttl", "all", "location cache TTL for -via system: never|1ms|forever|all (rotate)")
		cronk  = flag.String("cron", "rec", "cron service for -via system: rec | rec-ephemeral | internal | all (rotate)")
		check  = flag.String("check", "both", "existence checking for -via system: on|off|both (rotate)")
		script = flag.String("script", "", "execute the histories TLC wrote to this file (one JSON list of Engine operations per line) instead of generating any")
		t0     = flag.Int64("t0", 1000, "the specification's initial clock value in -script histories (numbers t0..t0+99 in documents are times)")
	)
	flag.Parse()
	if *script != "" {
		runScripts(*script, *state, *out, *par, *t0)
		return
	}
	if *prof == "boltalias" {
		boltAlias(*state)
		return
	}
	p, ok := profiles()[*prof]
	if !ok {
		fmt.Fprintln(os.Stderr, "unknown profile", *prof)
		os.Exit(2)
	}
	p.MixedEvents = *mixed
	if *length > 0 {
		p.Len = *length
	}
	rec := world.NewRecorder(p.MaxFacts)
	states := []string{"indexed", "linear"}
	if *state != "both" {
		states = []string{*state}
	}
	sem := make(chan bool, *par)
	var wg sync.WaitGroup
	var mu sync.Mutex
	voided := 0
	for i := 0; i < *n; i++ {
		for _, st := range states {
			wg.Add(1)
			sem <- true
			go func(i int, st string) {
				defer wg.Done()
				defer func() { <-sem }()
				for attempt := 0; attempt < 3; attempt++ {
					g := &world.Gen{R: rand.New(rand.NewSource(*seed*1000003 + int64(i))), P: p, T: rec.T}
					ctx := core.NewContext("verif")
					ctx.Verbosity = core.NOTHING
					var ms core.Storage
					if *store == "bolt" {
						file := fmt.Sprintf("%s/verif-bolt-%d-%d-%s-%d.db", os.TempDir(), os.Getpid(), i, st, attempt)
						os.Remove(file)
						bs, err := bolt.NewStorage(ctx, file)
						if err != nil {
							fmt.Fprintln(os.Stderr, "bolt:", err)
							os.Exit(2)
						}
						defer os.Remove(file)
						defer bs.Close(ctx)
						ms = bs
					} else {
						ms, _ = core.NewMemStorage(ctx)
					}
					cfg := world.Config{State: st, Store: *store, MaxFacts: p.MaxFacts, Locs: p.Locs, Via: *via}
					if *via == "system" || *via == "http" {
						cfg.Sys.TTL = *ttl
						if *ttl == "all" {
							cfg.Sys.TTL = []string{"never", "1ms", "forever"}[i%3]
						}
						cfg.Sys.CheckExistence = *check == "on" || (*check == "both" && (i/3)%2 == 0)
						cfg.Sys.Cron = *cronk
						if *cronk == "all" {
							cfg.Sys.Cron = []string{"rec", "rec-ephemeral", "internal"}[(i/2)%3]
						}
						if cfg.Sys.Cron != "rec" {
							cfg.Sys.TTL = "forever" // a System refuses a finite TTL with a cron that does not persist its jobs
						}
						if *store == "bolt" {
							cfg.BoltFile = fmt.Sprintf("%s/verif-sysbolt-%d-%d-%s-%d.db", os.TempDir(), os.Getpid(), i, st, attempt)
							os.Remove(cfg.BoltFile)
							defer os.Remove(cfg.BoltFile)
						}
					}
					w, err := world.NewWorld(cfg, rec, ms)
					if err != nil {
						fmt.Fprintln(os.Stderr, "world:", err)
						os.Exit(2)
					}
					if p.Name == "guardinh" {
						w.Do(world.Op{Op: "SetParents", Loc: "A", Names: []string{"B"}})
					}
					if p.Parents && len(p.Locs) >= 3 && *via == "" && g.R.Intn(2) == 0 {
						// start from a hierarchy in which one ancestor is reachable over two routes (no loop, no forest)
						pm := g.R.Perm(len(p.Locs))
						a, b, c := p.Locs[pm[0]], p.Locs[pm[1]], p.Locs[pm[2]]
						w.Do(world.Op{Op: "SetParents", Loc: a, Names: []string{b, c}})
						w.Do(world.Op{Op: "SetParents", Loc: b, Names: []string{c}})
					}
					for k := 0; k < p.Len; k++ {
						op := g.Next()
						if op.Op == "Restart" && !(*via == "system" && *store == "bolt") {
							continue
						}
						if op.Op == "Tick" && *via == "" {
							continue
						}
						if op.Op == "Sleep" {
							time.Sleep(1100 * time.Millisecond)
							continue
						}
						if op.Op == "SleepReload" {
							// things expire while nobody looks, then the location is loaded anew
							time.Sleep(time.Duration(1100+g.R.Intn(1000)) * time.Millisecond)
							w.Do(world.Op{Op: "Reload", Loc: op.Loc})
							continue
						}
						if *faults && *store == "bolt" && k == p.Len*2/3 && g.R.Intn(2) == 0 {
							// a key Bolt refuses (its limit is 32768 bytes; ids are not length-checked on the way in):
							// the operation must say so, not acknowledge a write that is not in the file
							if g.R.Intn(2) == 0 {
								w.Do(world.Op{Op: "AddFact", Loc: op.Loc, Id: strings.Repeat("k", 40000), Val: map[string]interface{}{"a": 1.0}, Refused: true})
							} else {
								long := strings.Repeat("r", 32764) // fits; the id of its property fact "!<id>.disabled" does not
								w.Do(world.Op{Op: "AddRule", Loc: op.Loc, Id: long, Val: map[string]interface{}{
									"when": map[string]interface{}{"pattern": map[string]interface{}{"a": 1.0}}, "action": map[string]interface{}{"code": "1"}}})
								w.Do(world.Op{Op: "EnableRule", Loc: op.Loc, Id: long, Flag: false, Refused: true})
							}
							break
						}
						if *faults && k >= p.Len/2 && g.R.Intn(6) == 0 {
							op.FailIn = 1 + g.R.Intn(3)
						}
						if *faults && k >= p.Len/3 && (op.Op == "RemFact" || op.Op == "RemRule") && g.R.Intn(3) == 0 {
							op.FailIn = 1 + g.R.Intn(4) // removals cascade: later writes of the same operation
						}
						if *faults && p.Fan && op.Op == "RemFact" && g.R.Intn(3) > 0 {
							op.FailIn = 1 + g.R.Intn(5) // some write in the middle of the cascade over a fan
						}
						w.Do(op)
						if w.Faulted {
							// A single-write, idempotent operation is retried: the retry has to be
							// acknowledged only if the change really is in storage (checked by the
							// reload that follows).  Anything else: memory and storage may disagree
							// now, and the trace ends here.
							idem := (op.Op == "AddFact" && op.Id != "" && op.Val["ttl"] == nil && op.Val["expires"] == nil) ||
								(op.Op == "EnableRule" && !op.Flag) || op.Op == "SetParents"
							if !idem {
								break
							}
							w.Faulted = false
							op.FailIn = 0
							w.Do(op)
							w.Do(world.Op{Op: "Reload", Loc: op.Loc})
						}
					}
					if w.Void() {
						mu.Lock()
						voided++
						mu.Unlock()
						continue
					}
					rec.Append(w.Events)
					return
				}
			}(i, st)
		}
	}
	wg.Wait()
	if err := rec.Write(*out, map[string]interface{}{"profile": p.Name, "seed": *seed}); err != nil {
		fmt.Fprintln(os.Stderr, err)
		os.Exit(2)
	}
	fmt.Printf("events=%d voided=%d out=%s\n", rec.Len(), voided, *out)
}

// boltAlias: data handed back by the Bolt back end has to stay intact while later
// writes make the database file grow (and be re-mapped).
func boltAlias(state string) {
	ctx := core.NewContext("verif")
	ctx.Verbosity = core.NOTHING
	file := fmt.Sprintf("%s/verif-boltalias-%d.db", os.TempDir(), os.Getpid())
	os.Remove(file)
	defer os.Remove(file)
	bs, err := bolt.NewStorage(ctx, file)
	if err != nil {
		fmt.Fprintln(os.Stderr, "bolt:", err)
		os.Exit(2)
	}
	mk := func() *core.Location {
		var st core.State
		if state == "indexed" {
			st, _ = core.NewIndexedState(ctx, "L", bs)
		} else {
			st, _ = core.NewLinearState(ctx, "L", bs)
		}
		loc, err := core.NewLocation(ctx, "L", st, nil)
		if err != nil {
			fmt.Fprintln(os.Stderr, "location:", err)
			os.Exit(2)
		}
		c := core.DefaultControl()
		c.Verbosity = core.NOTHING
		c.MaxFacts = 1000000
		loc.SetControl(c)
		return loc
	}
	loc := mk()
	for i := 0; i < 20; i++ {
		if _, err := loc.AddFact(ctx, fmt.Sprintf("k%d", i), core.Map{"kind": "keep", "n": float64(i)}); err != nil {
			fmt.Fprintln(os.Stderr, "add:", err)
			os.Exit(2)
		}
	}
	loc = mk() // reloaded from storage: holds what Load handed back
	big := make([]byte, 4000)
	for i := range big {
		big[i] = 'x'
	}
	other, _ := core.NewLinearState(ctx, "M", bs)
	oloc, _ := core.NewLocation(ctx, "M", other, nil)
	oc := core.DefaultControl()
	oc.Verbosity = core.NOTHING
	oc.MaxFacts = 1000000
	oloc.SetControl(oc)
	for i := 0; i < 2500; i++ { // ~10 MB into the same file
		if _, err := oloc.AddFact(ctx, fmt.Sprintf("g%d", i), core.Map{"pad": string(big)}); err != nil {
			fmt.Fprintln(os.Stderr, "grow:", err)
			os.Exit(2)
		}
	}
	srs, err := loc.SearchFacts(ctx, core.Map{"kind": "keep", "n": "?n"}, false)
	if err != nil || len(srs.Found) != 20 {
		fmt.Printf("boltalias: search on the reloaded location gave %v, %d results\n", err, len(srs.Found))
		os.Exit(3)
	}
	for _, sr := range srs.Found {
		if len(sr.Js) == 0 || sr.Js[0] != '{' {
			fmt.Printf("boltalias: corrupted stored JSON %q\n", sr.Js)
			os.Exit(3)
		}
	}
	fmt.Println("boltalias ok")
}

// runScripts executes operation histories generated by TLC from the specification
// (EngineMC in simulation mode, Gen_*.cfg) on the real code and records them like any
// other trace.  The specification's clock starts at t0: a number in t0..t0+99 inside a
// document is a time and is shifted to the real clock; a Tick waits for the next second.
func runScripts(file, state, out string, par int, t0 int64) {
	data, err := ioutil.ReadFile(file)
	if err != nil {
		fmt.Fprintln(os.Stderr, err)
		os.Exit(2)
	}
	var hists [][]map[string]interface{}
	for _, line := range strings.Split(string(data), "\n") {
		if strings.TrimSpace(line) == "" {
			continue
		}
		var h []map[string]interface{}
		if err := json.Unmarshal([]byte(line), &h); err != nil {
			fmt.Fprintln(os.Stderr, "script:", err)
			os.Exit(2)
		}
		hists = append(hists, h)
	}
	rec := world.NewRecorder(3)
	states := []string{"indexed", "linear"}
	if state != "both" {
		states = []string{state}
	}
	sem := make(chan bool, par)
	var wg sync.WaitGroup
	var mu sync.Mutex
	voided, ops := 0, 0
	for i, h := range hists {
		for _, st := range states {
			wg.Add(1)
			sem <- true
			go func(i int, st string, h []map[string]interface{}) {
				defer wg.Done()
				defer func() { <-sem }()
				locs := map[string]bool{}
				for _, o := range h {
					locs[o["loc"].(string)] = true
					if ns, ok := o["names"].([]interface{}); ok {
						for _, n := range ns {
							locs[n.(string)] = true
						}
					}
				}
				names := []string{}
				for l := range locs {
					names = append(names, l)
				}
				sort.Strings(names)
				for attempt := 0; attempt < 3; attempt++ {
					ctx := core.NewContext("verif")
					ctx.Verbosity = core.NOTHING
					ms, _ := core.NewMemStorage(ctx)
					w, err := world.NewWorld(world.Config{State: st, Store: "mem", MaxFacts: 3, Locs: names}, rec, ms)
					if err != nil {
						fmt.Fprintln(os.Stderr, "world:", err)
						os.Exit(2)
					}
					real0 := world.WaitMidSecond()
					var shift func(x interface{}) interface{}
					shift = func(x interface{}) interface{} {
						switch v := x.(type) {
						case float64:
							if v >= float64(t0) && v < float64(t0+100) && v == float64(int64(v)) {
								return float64(real0 + int64(v) - t0)
							}
						case map[string]interface{}:
							m := map[string]interface{}{}
							for k, e := range v {
								m[k] = shift(e)
							}
							return m
						case []interface{}:
							l := []interface{}{}
							for _, e := range v {
								l = append(l, shift(e))
							}
							return l
						}
						return x
					}
					n := 0
					for _, o := range h {
						name := o["op"].(string)
						if name == "Tick" {
							time.Sleep(time.Duration(1e9-time.Now().Nanosecond()) * time.Nanosecond)
							continue
						}
						op := world.Op{Op: name, Loc: o["loc"].(string), Id: o["id"].(string), Inh: o["inh"] == true,
							WK: o["wk"].(string), RK: o["rk"].(string), Flag: o["flag"] == true}
						if v, ok := shift(enc.Decode(o["val"])).(map[string]interface{}); ok {
							op.Val = v
						}
						if ns, ok := o["names"].([]interface{}); ok {
							for _, x := range ns {
								op.Names = append(op.Names, x.(string))
							}
							sort.Strings(op.Names)
						}
						w.Do(op)
						n++
					}
					if w.Void() {
						mu.Lock()
						voided++
						mu.Unlock()
						continue
					}
					mu.Lock()
					ops += n
					mu.Unlock()
					rec.Append(w.Events)
					return
				}
			}(i, st, h)
		}
	}
	wg.Wait()
	if err := rec.Write(out, map[string]interface{}{"profile": "script", "seed": 0}); err != nil {
		fmt.Fprintln(os.Stderr, err)
		os.Exit(2)
	}
	fmt.Printf("events=%d voided=%d histories=%d ops=%d out=%s\n", rec.Len(), voided, len(hists), ops, out)
}
