// enginedrv: runs seeded random histories of the location API against the
// real code and writes one trace file for spec/EngineTrace.tla.
package main

import (
	"flag"
	"fmt"
	"math/rand"
	"os"
	"sync"
	"time"

	"github.com/Comcast/rulio/core"
	"verif/harness/world"
)

func profiles() map[string]world.Profile {
	base := map[string]int{"AddFact": 30, "RemFact": 12, "GetFact": 12, "SearchFacts": 25}
	rules := map[string]int{"AddFact": 8, "RemFact": 6, "AddRule": 25, "RemRule": 10, "GetRule": 5,
		"EnableRule": 8, "ListRules": 4, "SearchRules": 6, "ProcessEvent": 30, "Clear": 2, "SearchFacts": 4}
	ids := []string{"f1", "f2", "f3"}
	return map[string]world.Profile{
		"facts": {Name: "facts", Len: 40, Locs: []string{"A"}, Ids: ids, MaxFacts: 1000, Weights: base, Cascade: false},
		"rules": {Name: "rules", Len: 40, Locs: []string{"A"}, Ids: []string{"r1", "r2", "f1"}, Rules: true,
			MaxFacts: 1000, Weights: rules},
	}
}

func main() {
	var (
		prof   = flag.String("profile", "facts", "operation mix")
		seed   = flag.Int64("seed", 1, "seed")
		n      = flag.Int("n", 20, "number of traces")
		length = flag.Int("len", 0, "operations per trace (0: profile default)")
		state  = flag.String("state", "both", "indexed|linear|both")
		store  = flag.String("store", "mem", "mem|bolt")
		out    = flag.String("out", "trace.ndjson", "output file")
		par    = flag.Int("par", 8, "traces run concurrently")
	)
	flag.Parse()
	p, ok := profiles()[*prof]
	if !ok {
		fmt.Fprintln(os.Stderr, "unknown profile", *prof)
		os.Exit(2)
	}
	if *length > 0 {
		p.Len = *length
	}
	rec := world.NewRecorder(p.MaxFacts)
	states := []string{"indexed", "linear"}
	if *state != "both" {
		states = []string{*state}
	}
	sem := make(chan bool, *par)
	var wg sync.WaitGroup
	var mu sync.Mutex
	voided := 0
	for i := 0; i < *n; i++ {
		for _, st := range states {
			wg.Add(1)
			sem <- true
			go func(i int, st string) {
				defer wg.Done()
				defer func() { <-sem }()
				for attempt := 0; attempt < 3; attempt++ {
					g := &world.Gen{R: rand.New(rand.NewSource(*seed*1000003 + int64(i))), P: p}
					ctx := core.NewContext("verif")
					ctx.Verbosity = core.NOTHING
					ms, _ := core.NewMemStorage(ctx)
					_ = store
					w, err := world.NewWorld(world.Config{State: st, Store: "mem", MaxFacts: p.MaxFacts, Locs: p.Locs}, rec, ms)
					if err != nil {
						fmt.Fprintln(os.Stderr, "world:", err)
						os.Exit(2)
					}
					for k := 0; k < p.Len; k++ {
						op := g.Next()
						if op.Op == "Sleep" {
							time.Sleep(1100 * time.Millisecond)
							continue
						}
						w.Do(op)
					}
					if w.Void() {
						mu.Lock()
						voided++
						mu.Unlock()
						continue
					}
					rec.Append(w.Events)
					return
				}
			}(i, st)
		}
	}
	wg.Wait()
	if err := rec.Write(*out, map[string]interface{}{"profile": p.Name, "seed": *seed}); err != nil {
		fmt.Fprintln(os.Stderr, err)
		os.Exit(2)
	}
	fmt.Printf("events=%d voided=%d out=%s\n", rec.Len(), voided, *out)
}
