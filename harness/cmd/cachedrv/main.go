// cachedrv: drives core.Cache (the TTL + LRU cache behind SlurpCache and HTTPClientCache)
// with seeded operation sequences on real time and records every call with a time bracket,
// its result and the cache's key list afterwards, for spec/CacheTrace.tla.
package main

import (
	"bufio"
	"encoding/json"
	"errors"
	"flag"
	"fmt"
	"math/rand"
	"os"
	"time"

	"github.com/Comcast/rulio/core"
)

type J = map[string]interface{}

func main() {
	seed := flag.Int64("seed", 1, "seed")
	n := flag.Int("n", 40, "scenarios")
	out := flag.String("out", "cache.ndjson", "trace file")
	flag.Parse()
	f, err := os.Create(*out)
	if err != nil {
		fmt.Fprintln(os.Stderr, err)
		os.Exit(2)
	}
	w := bufio.NewWriter(f)
	emit := func(j J) {
		b, _ := json.Marshal(j)
		w.Write(b)
		w.WriteString("\n")
	}
	lines := 0
	for s := 0; s < *n; s++ {
		r := rand.New(rand.NewSource(*seed*1000 + int64(s)))
		limit := r.Intn(4) // 0: caching off
		ttl := time.Duration(20+r.Intn(60)) * time.Millisecond
		c := core.NewCache(limit, ttl)
		start := time.Now()
		us := func() int64 { return int64(time.Since(start) / time.Microsecond) }
		emit(J{"ev": "reset", "limit": limit, "ttl": int64(ttl / time.Microsecond), "seed": *seed*1000 + int64(s)})
		keys := []string{"k1", "k2", "k3", "k4", "k5"}
		val := 0
		for i, steps := 0, 25+r.Intn(25); i < steps; i++ {
			k := keys[r.Intn(len(keys))]
			l := J{"ev": "op", "key": k, "val": 0, "hit": false, "res": 0, "err": false}
			t0 := us()
			switch x := r.Intn(20); {
			case x < 5:
				val++
				l["op"], l["val"] = "add", val
				t0 = us()
				c.Add(k, val)
			case x < 10:
				l["op"] = "get"
				t0 = us()
				v, ok := c.Get(k)
				l["hit"] = ok
				if ok {
					l["res"] = v.(int)
				}
			case x < 14:
				val++
				fail := r.Intn(4) == 0
				l["op"], l["val"], l["fail"] = "getwith", val, fail
				called := false
				t0 = us()
				v, err := c.GetWith(k, func() (interface{}, error) {
					called = true
					if fail {
						return nil, errors.New("no")
					}
					return val, nil
				})
				l["called"], l["err"] = called, err != nil
				if err == nil {
					l["res"] = v.(int)
				}
			case x < 15:
				l["op"] = "remove"
				t0 = us()
				c.Remove(k)
			case x < 16:
				l["op"] = "removeoldest"
				t0 = us()
				c.RemoveOldest()
			case x < 17 && r.Intn(3) == 0:
				l["op"] = "purge"
				t0 = us()
				c.Purge()
			case x < 18:
				l["op"] = "len"
				t0 = us()
				l["res"] = c.Len()
			default:
				time.Sleep(time.Duration(r.Intn(int(ttl/time.Millisecond)+10)) * time.Millisecond)
				continue
			}
			if l["op"] == nil {
				continue
			}
			l["t0"], l["t1"] = t0, us()
			ks := []interface{}{}
			if limit > 0 {
				ks = c.Keys() // oldest first
			}
			l["keys"] = ks
			emit(l)
			lines++
		}
	}
	w.Flush()
	f.Close()
	fmt.Printf("{\"scenarios\": %d, \"lines\": %d}\n", *n, lines)
}
