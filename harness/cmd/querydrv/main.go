// querydrv: evaluates generated query trees with Location.Query on generated
// fact sets (own facts and a parent's) and records each call for
// spec/QueryTrace.tla.
package main

import (
	"bufio"
	"encoding/json"
	"flag"
	"fmt"
	"io/ioutil"
	"math/rand"
	"os"

	"github.com/Comcast/rulio/core"
	"verif/harness/enc"
)

type J = map[string]interface{}
type A = []interface{}

var codeSrc = map[string]string{
	"true": "true", "false": "false", "null": "null", "zero": "0", "str": "'s'",
	"xeq1": "x === 1", "obj": "({z: 7})", "throw": "throw 'no'", "syntax": "syntax error(",
}

type gen struct {
	r       *rand.Rand
	scripts bool
}

var keys = []string{"a", "b", "c"}
var vals = []interface{}{1.0, 2.0, "x"}
var vars = []string{"?x", "?y", "?w"}

func (g *gen) fact() J {
	m := J{}
	for i, n := 0, 1+g.r.Intn(3); i < n; i++ {
		k := keys[g.r.Intn(len(keys))]
		switch g.r.Intn(8) {
		case 0:
			// containers in facts are singletons, so that re-matching a bound
			// container value is the same as comparing it (known finding C05
			// D_REBIND_PARTIAL lives in the matcher, not in query evaluation)
			m[k] = A{vals[g.r.Intn(3)]}
		case 1:
			m[k] = J{"n": vals[g.r.Intn(3)]}
		default:
			m[k] = vals[g.r.Intn(3)]
		}
	}
	return m
}

func (g *gen) pattern() J {
	m := J{}
	for i, n := 0, 1+g.r.Intn(2); i < n; i++ {
		k := keys[g.r.Intn(len(keys))]
		switch g.r.Intn(10) {
		case 0, 1, 2, 3, 4:
			m[k] = vars[g.r.Intn(len(vars))]
		case 5:
			m[k] = A{vars[g.r.Intn(len(vars))]}
		case 6:
			m[k] = J{"n": vars[g.r.Intn(len(vars))]}
		default:
			m[k] = vals[g.r.Intn(3)]
		}
	}
	return m
}

// Directed family: joins over incoming bindings that bind DIFFERENT variable sets (an `or` of
// patterns over different variables, then patterns that use some of them), over flat facts
// whose values include null - the shapes in which substitution of the incoming binding
// (Bindings.Bind) decides the result.
var jvals = []interface{}{1.0, 2.0, "x", nil}

func (g *gen) jfact() J {
	m := J{}
	for i, n := 0, 1+g.r.Intn(3); i < n; i++ {
		m[keys[g.r.Intn(len(keys))]] = jvals[g.r.Intn(len(jvals))]
	}
	return m
}

func (g *gen) jpattern() J {
	m := J{}
	for i, n := 0, 1+g.r.Intn(2); i < n; i++ {
		k := keys[g.r.Intn(len(keys))]
		if g.r.Intn(5) == 0 {
			m[k] = jvals[g.r.Intn(len(jvals))]
		} else {
			m[k] = vars[g.r.Intn(len(vars))]
		}
	}
	return m
}

func (g *gen) jquery() (J, J) {
	ts, js := A{}, A{}
	for i, k := 0, 2+g.r.Intn(2); i < k; i++ {
		p := g.jpattern()
		ts, js = append(ts, J{"t": "pattern", "p": p}), append(js, J{"pattern": p})
	}
	sc := g.r.Intn(4) == 0
	ot, oj := J{"t": "or", "qs": ts, "sc": sc}, J{"or": js, "shortCircuit": sc}
	at, aj := A{ot}, A{oj}
	for i, k := 0, 1+g.r.Intn(2); i < k; i++ {
		p := g.jpattern()
		var qt, qj J = J{"t": "pattern", "p": p}, J{"pattern": p}
		if g.r.Intn(5) == 0 {
			qt, qj = J{"t": "not", "q": qt}, J{"not": qj}
		}
		at, aj = append(at, qt), append(aj, qj)
	}
	if g.scripts || g.r.Intn(3) == 0 {
		// a script over bindings of which only some bind its variable: it throws (ReferenceError)
		// for the others, and a condition whose script throws for any binding is an error
		at, aj = append(at, J{"t": "code", "kind": "xeq1"}), append(aj, J{"code": codeSrc["xeq1"]})
	}
	return J{"t": "and", "qs": at}, J{"and": aj}
}

// query returns the tree for TLC and the JSON rulio takes.
func (g *gen) query(depth int) (J, J) {
	n := g.r.Intn(100)
	if depth <= 0 && n >= 60 {
		n = g.r.Intn(60)
	}
	switch {
	case n < 42:
		p := g.pattern()
		return J{"t": "pattern", "p": p}, J{"pattern": p}
	case n < 56:
		kinds := []string{"true", "false", "null", "zero", "str", "xeq1", "xeq1", "obj", "throw", "syntax"}
		k := kinds[g.r.Intn(len(kinds))]
		if k == "syntax" && g.r.Intn(3) > 0 {
			k = "true"
		}
		return J{"t": "code", "kind": k}, J{"code": codeSrc[k]}
	case n < 60:
		return J{"t": "empty"}, J{}
	case n < 76:
		ts, js := A{}, A{}
		for i, k := 0, g.r.Intn(4); i < k; i++ {
			t, j := g.query(depth - 1)
			ts, js = append(ts, t), append(js, j)
		}
		return J{"t": "and", "qs": ts}, J{"and": js}
	case n < 90:
		ts, js := A{}, A{}
		for i, k := 0, g.r.Intn(4); i < k; i++ {
			t, j := g.query(depth - 1)
			ts, js = append(ts, t), append(js, j)
		}
		sc := g.r.Intn(2) == 0
		j := J{"or": js}
		if sc || g.r.Intn(2) == 0 {
			j["shortCircuit"] = sc
		}
		return J{"t": "or", "qs": ts, "sc": sc}, j
	default:
		t, j := g.query(depth - 1)
		return J{"t": "not", "q": t}, J{"not": j}
	}
}

// encTree replaces every pattern in the tree by its tagged encoding.
func encTree(t *enc.Tables, q J) J {
	out := J{}
	for k, v := range q {
		out[k] = v
	}
	switch q["t"] {
	case "pattern":
		out["p"] = t.Encode(map[string]interface{}(q["p"].(J)))
	case "and", "or":
		qs := A{}
		for _, c := range q["qs"].(A) {
			qs = append(qs, encTree(t, c.(J)))
		}
		out["qs"] = qs
	case "not":
		out["q"] = encTree(t, q["q"].(J))
	}
	return out
}

func main() {
	var (
		seed    = flag.Int64("seed", 1, "seed")
		n       = flag.Int("n", 2000, "number of queries")
		out     = flag.String("out", "query.ndjson", "output")
		joins   = flag.Bool("joins", true, "every fourth case is a directed join over heterogeneous bindings and null values")
		scripts = flag.Bool("scripts", false, "C14: half of the cases are directed joins, each ending in a script that throws for the bindings without ?x")
	)
	flag.Parse()
	core.DefaultLogger = core.NewSimpleLogger(ioutil.Discard)
	core.DefaultVerbosity = core.NOTHING
	t := enc.NewTables()
	events := []J{}
	g := &gen{r: rand.New(rand.NewSource(*seed)), scripts: *scripts}
	for i := 0; i < *n; i++ {
		state := []string{"indexed", "linear"}[i%2]
		ctx := core.NewContext("verif")
		ctx.Verbosity = core.NOTHING
		store, _ := core.NewMemStorage(ctx)
		locs := map[string]*core.Location{}
		prov := core.NewSimpleLocationProvider(locs)
		for _, name := range []string{"A", "P"} {
			var st core.State
			if state == "indexed" {
				st, _ = core.NewIndexedState(ctx, name, store)
			} else {
				st, _ = core.NewLinearState(ctx, name, store)
			}
			loc, err := core.NewLocation(ctx, name, st, nil)
			if err != nil {
				panic(err)
			}
			c := core.DefaultControl()
			c.Verbosity = core.NOTHING
			loc.SetControl(c)
			loc.Provider = prov
			locs[name] = loc
		}
		withParent := g.r.Intn(2) == 0
		directed := *joins && (i%4 == 3 || (*scripts && i%2 == 1))
		facts := A{}
		add := func(loc string, k int) {
			for j := 0; j < k; j++ {
				f := g.fact()
				if directed {
					f = g.jfact()
				}
				id := fmt.Sprintf("f%d", j) // the same ids in the location and in its parent
				cp := J{}
				bs, _ := json.Marshal(f)
				json.Unmarshal(bs, &cp)
				if _, err := locs[loc].AddFact(ctx, id, core.Map(cp)); err != nil {
					panic(err)
				}
				facts = append(facts, J{"loc": loc, "id": id, "body": t.Encode(map[string]interface{}(f))})
			}
		}
		add("A", g.r.Intn(5))
		if withParent {
			add("P", g.r.Intn(4))
			if _, err := locs["A"].SetParents(ctx, []string{"P"}); err != nil {
				panic(err)
			}
		}
		tree, js := g.query(3)
		if directed {
			tree, js = g.jquery()
		}
		qs, _ := json.Marshal(js)
		qr, err := locs["A"].Query(ctx, string(qs))
		res := A{}
		msg := ""
		if err != nil {
			msg = err.Error()
		} else {
			for _, b := range qr.Bss {
				cp := J{}
				bs, _ := json.Marshal(map[string]interface{}(b))
				json.Unmarshal(bs, &cp)
				res = append(res, t.EncodeBindings(cp))
			}
		}
		events = append(events, J{"ev": "query", "state": state, "facts": facts, "q": encTree(t, tree), "bin": A{J{}},
			"res": res, "err": err != nil, "msg": msg, "json": string(qs)})
	}
	f, _ := os.Create(*out)
	w := bufio.NewWriterSize(f, 1<<20)
	je := json.NewEncoder(w)
	je.SetEscapeHTML(false)
	je.Encode(t.Header(J{"max": 0, "seed": *seed}))
	for _, e := range events {
		je.Encode(e)
	}
	w.Flush()
	f.Close()
	fmt.Printf("cases=%d out=%s\n", len(events), *out)
}
