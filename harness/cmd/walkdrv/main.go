// walkdrv drives core.Location.WorkWalk (the walk behind ProcessEvent and RetryEventWork) on
// work trees in every state of partial completion, with step budgets, failing conditions and
// failing actions, and records after every call what the call left behind: the tree (order of
// the rules, dispositions of every node), the executions counted by a probe function inside
// the scripts, and Values.  spec/WorkWalkTrace.tla decides whether WorkWalk.tla allows it.
package main

import (
	"encoding/json"
	"flag"
	"fmt"
	"io/ioutil"
	"math/rand"
	"os"
	"sort"
	"strconv"
	"strings"
	"sync"

	"github.com/Comcast/rulio/core"
	"github.com/robertkrimen/otto"
)

func init() {
	core.DefaultLogger = core.NewSimpleLogger(ioutil.Discard)
	core.DefaultVerbosity = core.NOTHING
}

// probe is the App of the context: it puts P(tag) into every interpreter.  P counts the call
// and says whether the script is to throw now.
type probe struct {
	sync.Mutex
	calls []string
	fail  map[string]bool // "c|r" or "a|r|ai"
}

func (p *probe) GenerateHeaders(ctx *core.Context) map[string]string { return nil }
func (p *probe) ProcessBindings(ctx *core.Context, bs core.Bindings) core.Bindings {
	return bs
}
func (p *probe) ProcessQuery(ctx *core.Context, raw map[string]interface{}, q core.Query) core.Query {
	return q
}
func (p *probe) UpdateJavascriptRuntime(ctx *core.Context, rt *otto.Otto) error {
	return rt.Set("P", func(call otto.FunctionCall) otto.Value {
		tag, _ := call.Argument(0).ToString()
		key, _ := call.Argument(1).ToString()
		p.Lock()
		p.calls = append(p.calls, tag)
		f := p.fail[key]
		p.Unlock()
		v, _ := otto.ToValue(f)
		return v
	})
}

type shape struct {
	Rules  []string
	NW     map[string]int
	NC     map[string]int
	NA     map[string]int
	Serial map[string]bool
}

func num(x interface{}) int {
	switch v := x.(type) {
	case float64:
		return int(v)
	case int:
		return v
	case int64:
		return int(v)
	case string:
		n, _ := strconv.Atoi(v)
		return n
	}
	return -1
}

func disp(c *core.Condition) string {
	if c == nil {
		return "none"
	}
	if c == core.Complete {
		return "ok"
	}
	return "err"
}

func main() {
	seed := flag.Int64("seed", 1, "seed")
	n := flag.Int("n", 200, "traces")
	out := flag.String("out", "walk.ndjson", "output")
	flag.BoolVar(&freshOnly, "fresh", false, "every call processes a new event (no walk of an existing tree)")
	flag.Parse()
	r := rand.New(rand.NewSource(*seed))
	f, err := os.Create(*out)
	if err != nil {
		panic(err)
	}
	defer f.Close()
	emit := func(m map[string]interface{}) {
		b, err := json.Marshal(m)
		if err != nil {
			panic(err)
		}
		f.Write(b)
		f.Write([]byte("\n"))
	}
	for t := 0; t < *n; t++ {
		one(r, t, emit)
	}
}

var freshOnly bool

func one(r *rand.Rand, t int, emit func(map[string]interface{})) {
	sh := shape{NW: map[string]int{}, NC: map[string]int{}, NA: map[string]int{}, Serial: map[string]bool{}}
	nr := 1 + r.Intn(2)
	for i := 1; i <= nr; i++ {
		id := fmt.Sprintf("r%d", i)
		sh.Rules = append(sh.Rules, id)
		sh.NW[id] = 1 + r.Intn(2)
		sh.NC[id] = r.Intn(3)
		sh.NA[id] = 1 + r.Intn(2)
		sh.Serial[id] = r.Intn(2) == 0
	}
	pr := &probe{fail: map[string]bool{}}
	ctx := core.NewContext("verif")
	ctx.Verbosity = core.NOTHING
	ctx.App = pr
	store, _ := core.NewMemStorage(ctx)
	name := fmt.Sprintf("W%d", t)
	var st core.State
	if r.Intn(2) == 0 {
		st, _ = core.NewIndexedState(ctx, name, store)
	} else {
		st, _ = core.NewLinearState(ctx, name, store)
	}
	loc, err := core.NewLocation(ctx, name, st, nil)
	if err != nil {
		panic(err)
	}
	c := core.DefaultControl()
	c.Verbosity = core.NOTHING
	loc.SetControl(c)
	for _, id := range sh.Rules {
		disj := []interface{}{}
		for cb := 1; cb <= sh.NC[id]; cb++ {
			disj = append(disj, map[string]interface{}{"code": fmt.Sprintf("({c:%d})", cb)})
		}
		cond := map[string]interface{}{"and": []interface{}{
			map[string]interface{}{"code": fmt.Sprintf("if (P('c|%s|'+w, 'c|%s')) { throw 'cboom'; } true", id, id)},
			map[string]interface{}{"or": disj},
		}}
		acts := []interface{}{}
		for ai := 1; ai <= sh.NA[id]; ai++ {
			// every action also scribbles on its event and reports ('!') when it finds the scribble of
			// another execution: each execution is to see the event as it arrived
			// every action also leaves a global behind (zzLeak) and reports one it finds: a script sees
			// its bindings and nothing of an earlier script
			// (only the actions of serial rules write to the event: they run one after the other, so a shared event
			// shows as a '!' and not as a fatal concurrent map access of the Go runtime)
			scribble := ""
			if sh.Serial[id] {
				scribble = "event.z = 1; "
			}
			code := fmt.Sprintf("if (P('a|%s|'+w+'|'+c+'|%d', 'a|%s|%d')) { throw 'aboom'; } var seen = (event.z === undefined && typeof zzLeak === 'undefined') ? '' : '!'; zzLeak = 1; %s'v|%s|'+w+'|'+c+'|%d' + seen", id, ai, id, ai, scribble, id, ai)
			acts = append(acts, map[string]interface{}{"code": code})
		}
		rule := map[string]interface{}{
			"when":      map[string]interface{}{"pattern": map[string]interface{}{"g" + id: []interface{}{"?w"}}},
			"condition": cond,
			"actions":   acts,
		}
		if sh.Serial[id] {
			rule["policies"] = map[string]interface{}{"serialActions": true}
		}
		if _, err := loc.AddRule(ctx, id, rule); err != nil {
			panic(fmt.Sprintf("AddRule: %v", err))
		}
	}
	shapeJ := map[string]interface{}{"rules": sh.Rules, "nw": sh.NW, "nc": sh.NC, "na": sh.NA, "serial": sh.Serial}
	emit(map[string]interface{}{"ev": "reset", "shape": shapeJ, "t": t})

	live := map[string]bool{}
	for _, id := range sh.Rules {
		live[id] = true
	}
	var work *core.FindRules
	ncalls := 2 + r.Intn(5)
	for k := 0; k < ncalls; k++ {
		// environment
		condFail, actFail := []string{}, []interface{}{}
		pr.Lock()
		pr.fail = map[string]bool{}
		for _, id := range sh.Rules {
			if r.Intn(4) == 0 {
				pr.fail["c|"+id] = true
				condFail = append(condFail, id)
			}
			for ai := 1; ai <= sh.NA[id]; ai++ {
				if r.Intn(3) == 0 {
					pr.fail[fmt.Sprintf("a|%s|%d", id, ai)] = true
					actFail = append(actFail, []interface{}{id, ai})
				}
			}
		}
		pr.calls = nil
		pr.Unlock()
		if r.Intn(4) == 0 {
			id := sh.Rules[r.Intn(len(sh.Rules))]
			en := !live[id]
			if !en {
				// keep at least one rule enabled
				cnt := 0
				for _, v := range live {
					if v {
						cnt++
					}
				}
				if cnt <= 1 {
					en = true
				}
			}
			if err := loc.EnableRule(ctx, id, en); err != nil {
				panic(err)
			}
			live[id] = en
		}
		liveL := []string{}
		for _, id := range sh.Rules {
			if live[id] {
				liveL = append(liveL, id)
			}
		}
		op, steps := "again", 0
		if work == nil || freshOnly || r.Intn(4) == 0 {
			op = "process"
		} else {
			steps = []int{0, 0, -2, -2, 1, 2, 3, -1, -3}[r.Intn(9)]
		}
		var cond *core.Condition
		if op == "process" {
			ev := core.Map{}
			for _, id := range sh.Rules {
				arr := []interface{}{}
				for w := 1; w <= sh.NW[id]; w++ {
					arr = append(arr, float64(w))
				}
				ev["g"+id] = arr
			}
			work, _ = loc.PrepareWork(ctx, ev)
			cond = loc.WorkWalk(ctx, work, 0)
		} else {
			cond = loc.WorkWalk(ctx, work, steps)
		}
		ret := "ok"
		if cond != nil && cond != core.Complete {
			ret = "err"
		}
		emit(map[string]interface{}{"ev": "walk", "op": op, "steps": steps, "live": liveL, "condFail": condFail, "actFail": actFail,
			"ret": ret, "tree": project(sh, work), "values": tags(work.Values, "v"), "badvalues": badValues(work.Values), "execs": calls(pr, "a"), "cexecs": calls(pr, "c")})
	}
}

func calls(pr *probe, kind string) []interface{} {
	pr.Lock()
	defer pr.Unlock()
	xs := []string{}
	for _, c := range pr.calls {
		if strings.HasPrefix(c, kind+"|") {
			xs = append(xs, c)
		}
	}
	sort.Strings(xs)
	out := []interface{}{}
	for _, c := range xs {
		out = append(out, tagOf(c))
	}
	return out
}

// tagOf: "a|r1|2|1|2" -> {r:"r1", w:2, c:1, ai:2}; "c|r1|2" -> {r:"r1", w:2}
func tagOf(s string) map[string]interface{} {
	p := strings.Split(s, "|")
	m := map[string]interface{}{"r": p[1], "w": num(p[2])}
	if len(p) >= 5 {
		m["c"] = num(p[3])
		m["ai"] = num(p[4])
	}
	return m
}

// goodValue: "v|<rule>|<w>|<c>|<ai>" exactly
func goodValue(v interface{}) bool {
	s, ok := v.(string)
	if !ok {
		return false
	}
	p := strings.Split(s, "|")
	if len(p) != 5 || p[0] != "v" {
		return false
	}
	for _, x := range p[2:] {
		if _, err := strconv.Atoi(x); err != nil {
			return false
		}
	}
	return true
}

// badValues counts the entries of Values that no action of the driver's rules returns.
func badValues(vals []interface{}) int {
	n := 0
	for _, v := range vals {
		if !goodValue(v) {
			n++
		}
	}
	return n
}

func tags(vals []interface{}, kind string) []interface{} {
	xs := []string{}
	for _, v := range vals {
		if !goodValue(v) {
			continue
		}
		xs = append(xs, v.(string))
	}
	sort.Strings(xs)
	out := []interface{}{}
	for _, s := range xs {
		out = append(out, tagOf(s))
	}
	return out
}

func project(sh shape, w *core.FindRules) map[string]interface{} {
	order := []interface{}{}
	er := map[string]interface{}{}
	done := map[string]interface{}{}
	for _, id := range sh.Rules {
		er[id] = map[string]interface{}{"d": "none", "kids": []interface{}{}, "present": false}
		done[id] = "none"
	}
	for _, e := range w.Children {
		id := e.Rule.Id
		order = append(order, id)
		kids := []interface{}{}
		for _, erc := range e.Children {
			acts := []interface{}{}
			for _, era := range erc.Children {
				acts = append(acts, map[string]interface{}{"d": disp(era.Disposition), "c": num(era.Bindings["?c"]), "w": num(era.Bindings["?w"]),
					"ai": actIndex(era.Act)})
			}
			kids = append(kids, map[string]interface{}{"w": num(erc.Bindings["?w"]), "d": disp(erc.Disposition), "acts": acts})
		}
		bss := []interface{}{}
		for _, bs := range e.Bindingss {
			bss = append(bss, num(bs["?w"]))
		}
		er[id] = map[string]interface{}{"d": disp(e.Disposition), "kids": kids, "bss": bss, "present": true}
		if e.DoneWork != nil {
			done[id] = disp(e.DoneWork.Disposition)
		}
	}
	return map[string]interface{}{"frD": disp(w.Disposition), "order": order, "er": er, "done": done}
}

func actIndex(a core.Action) int {
	code := fmt.Sprintf("%v", a.Code)
	i := strings.LastIndex(code, "|")
	if i < 0 || i+2 > len(code) {
		return -1
	}
	return num(code[i+1 : i+2])
}
