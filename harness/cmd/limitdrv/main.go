// limitdrv: drives core.OutboundBreaker and core.Throttle on real time with
// generated arrival patterns and records every call with time brackets for
// spec/LimitTrace.tla.
package main

import (
	"bufio"
	"encoding/json"
	"flag"
	"fmt"
	"math/rand"
	"os"
	"sync"
	"sync/atomic"
	"time"

	"github.com/Comcast/rulio/core"
)

type J = map[string]interface{}

type call struct {
	T0, T1 int64 // microseconds since scenario start
	Closed bool
}

func us(start time.Time) int64 { return int64(time.Since(start) / time.Microsecond) }

// never admits
type shut struct{ calls int64 }

func (s *shut) Do(f func() error) (bool, error) { atomic.AddInt64(&s.calls, 1); return false, nil }
func (s *shut) Disable(bool)                    {}
func (s *shut) Status() core.BreakerStatus      { return core.BreakerStatus{} }

func breakerScenario(r *rand.Rand, limit int64, interval time.Duration, pattern string, workers int) J {
	b, err := core.NewOutboundBreaker(limit, interval)
	if err != nil {
		panic(err)
	}
	start := time.Now()
	var mu sync.Mutex
	calls := []call{}
	do := func() {
		t0 := us(start)
		closed := b.Zap()
		t1 := us(start)
		mu.Lock()
		calls = append(calls, call{t0, t1, closed})
		mu.Unlock()
	}
	tick := interval / 20
	var wg sync.WaitGroup
	for w := 0; w < workers; w++ {
		wg.Add(1)
		go func(w int) {
			defer wg.Done()
			switch pattern {
			case "burst-then-fastpoll":
				for i := int64(0); i < 3*limit; i++ {
					do()
				}
				for time.Since(start) < 3*interval {
					do()
					time.Sleep(tick / 10)
				}
			case "fastpoll":
				for time.Since(start) < 4*interval {
					do()
					time.Sleep(tick / 7)
				}
			case "slowpoll":
				for time.Since(start) < 4*interval {
					do()
					time.Sleep(tick*2 + tick/3)
				}
			case "random":
				for time.Since(start) < 4*interval {
					do()
					time.Sleep(time.Duration(r.Int63n(int64(3 * tick))))
				}
			case "stampede":
				// every worker calls at once and nobody waits: admission (look at the window, then
				// count the call) has to be one step, or more than `limit` get in
				for i := 0; i < 4; i++ {
					do()
				}
			case "bursts":
				for time.Since(start) < 4*interval {
					for i := int64(0); i < limit+2; i++ {
						do()
					}
					time.Sleep(interval/2 + time.Duration(w)*time.Millisecond)
				}
			}
		}(w)
	}
	wg.Wait()
	cs := make([]interface{}, 0, len(calls))
	for _, c := range calls {
		cs = append(cs, J{"t0": c.T0, "t1": c.T1, "closed": c.Closed})
	}
	return J{"ev": "breaker", "limit": limit, "interval_us": int64(interval / time.Microsecond), "pattern": pattern,
		"workers": workers, "calls": cs}
}

func throttleScenario(pendingLimit, attempts, n int, pause time.Duration, admit bool) J {
	var br core.Breaker = &shut{}
	if admit {
		ob, _ := core.NewOutboundBreaker(1, 50*time.Millisecond) // admits one call per 50 ms
		br = ob
	}
	th, err := core.NewThrottle(attempts, pendingLimit, pause, br)
	if err != nil {
		panic(err)
	}
	start := time.Now()
	type sub struct {
		T0, T1 int64
		Res    string
		Ran    int64
	}
	subs := make([]sub, n)
	var wg sync.WaitGroup
	maxPending := int64(0)
	stop := make(chan bool)
	go func() { // sample the throttle's own counter as well
		for {
			select {
			case <-stop:
				return
			default:
			}
			p, _ := th.Pending()
			if int64(p) > atomic.LoadInt64(&maxPending) {
				atomic.StoreInt64(&maxPending, int64(p))
			}
			time.Sleep(200 * time.Microsecond)
		}
	}()
	for i := 0; i < n; i++ {
		wg.Add(1)
		go func(i int) {
			defer wg.Done()
			time.Sleep(time.Duration(i) * 3 * time.Millisecond) // staggered arrivals
			s := &subs[i]
			s.T0 = us(start)
			err := th.Submit(func() error { atomic.AddInt64(&s.Ran, 1); return nil })
			s.T1 = us(start)
			switch err {
			case nil:
				s.Res = "ran"
			case core.ThrottleOverflow:
				s.Res = "overflow"
			case core.ThrottleExhausted:
				s.Res = "exhausted"
			default:
				s.Res = "error"
			}
		}(i)
	}
	wg.Wait()
	close(stop)
	ss := make([]interface{}, 0, n)
	for _, s := range subs {
		ss = append(ss, J{"t0": s.T0, "t1": s.T1, "res": s.Res, "ran": s.Ran})
	}
	p, _ := th.Pending()
	return J{"ev": "throttle", "pending_limit": pendingLimit, "attempts": attempts, "pause_us": int64(pause / time.Microsecond),
		"admit": admit, "subs": ss, "max_pending_sampled": atomic.LoadInt64(&maxPending), "pending_end": p}
}

func main() {
	var (
		seed  = flag.Int64("seed", 1, "seed")
		out   = flag.String("out", "limits.ndjson", "output")
		scale = flag.Int("scale", 1, "repetitions")
	)
	flag.Parse()
	r := rand.New(rand.NewSource(*seed))
	events := []J{}
	var mu sync.Mutex
	var wg sync.WaitGroup
	add := func(f func() J) {
		wg.Add(1)
		go func() { defer wg.Done(); e := f(); mu.Lock(); events = append(events, e); mu.Unlock() }()
	}
	for rep := 0; rep < *scale; rep++ {
		for _, limit := range []int64{1, 2, 5} {
			for _, interval := range []time.Duration{200 * time.Millisecond, 400 * time.Millisecond} {
				for _, p := range []string{"burst-then-fastpoll", "fastpoll", "slowpoll", "random", "bursts"} {
					workers := 1 + r.Intn(2)*r.Intn(4)
					seed2 := r.Int63()
					limit, interval, p := limit, interval, p
					add(func() J { return breakerScenario(rand.New(rand.NewSource(seed2)), limit, interval, p, workers) })
				}
			}
		}
		wg.Wait() // breaker scenarios first: they are sensitive to scheduling delays
		for i := 0; i < 150; i++ {
			seed2 := r.Int63()
			limit := []int64{1, 3, 5}[i%3]
			events = append(events, breakerScenario(rand.New(rand.NewSource(seed2)), limit, 10*time.Minute, "stampede", 16+16*(i%2)))
		}
		for _, pl := range []int{0, 1, 3} {
			for _, admit := range []bool{false, true} {
				pl, admit := pl, admit
				add(func() J { return throttleScenario(pl, 4, 12+2*pl, 15*time.Millisecond, admit) })
			}
		}
		wg.Wait()
	}
	f, _ := os.Create(*out)
	w := bufio.NewWriter(f)
	je := json.NewEncoder(w)
	je.Encode(J{"ev": "header", "seed": *seed})
	for _, e := range events {
		je.Encode(e)
	}
	w.Flush()
	f.Close()
	fmt.Printf("scenarios=%d out=%s\n", len(events), *out)
}
