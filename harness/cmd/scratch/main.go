package main

import (
	"encoding/json"
	"fmt"
	"io/ioutil"

	"github.com/Comcast/rulio/core"
)

func main() {
	core.DefaultLogger = core.NewSimpleLogger(ioutil.Discard)
	ctx := core.NewContext("x")
	ctx.Verbosity = core.NOTHING
	store, _ := core.NewMemStorage(ctx)
	st, _ := core.NewIndexedState(ctx, "A", store)
	loc, _ := core.NewLocation(ctx, "A", st, nil)
	c := core.DefaultControl()
	c.Verbosity = core.NOTHING
	loc.SetControl(c)
	loc.AddFact(ctx, "f1", core.Map{"likes": "tacos", "who": "homer"})
	loc.AddFact(ctx, "f2", core.Map{"likes": "beer", "who": "homer"})
	var rule map[string]interface{}
	json.Unmarshal([]byte(`{"when":{"pattern":{"wants":["?w"]}},"condition":{"pattern":{"likes":"?l","who":"?p"}},
	  "actions":[{"code":"({tag:'a1', b:Env.bindings})"},{"code":"throw 'bad'"},{"code":"var q = 1; q + 1"}],"policies":{"serialActions":false}}`), &rule)
	_, err := loc.AddRule(ctx, "r1", core.Map(rule))
	fmt.Println("addrule", err)
	fr, cond := loc.ProcessEvent(ctx, core.Map{"wants": []interface{}{"x", "y"}})
	bs, _ := json.MarshalIndent(fr, "", " ")
	fmt.Println(string(bs), cond)
}
