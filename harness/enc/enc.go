// Package enc turns Go/JSON values into the homogeneous tagged encoding of
// spec/JsonVal.tla and collects the lexical tables (strings starting with
// "?" or "!", integral numbers, durations, times) that TLC cannot compute.
package enc

import (
	"encoding/json"
	"fmt"
	"math"
	"sort"
	"strconv"
	"strings"
	"sync"
	"time"
)

type V = map[string]interface{}

type Tables struct {
	mu      sync.Mutex
	Bang    map[string]string
	Ints    map[string]int64
	Durs    map[string]int64
	Times   map[string]int64
	QStr    map[string]bool
	BadJs   map[string]bool
	OneShot map[string]bool              // schedule strings of one-shot jobs (start with + or !)
	Acts    map[string]map[string]string // action code -> {kind, tag}
	Codes   map[string]string            // condition code -> kind
}

func NewTables() *Tables {
	t := &Tables{Bang: map[string]string{}, Ints: map[string]int64{}, Durs: map[string]int64{},
		Times: map[string]int64{}, QStr: map[string]bool{}, BadJs: map[string]bool{},
		Acts: map[string]map[string]string{}, Codes: map[string]string{}, OneShot: map[string]bool{}}
	// the trivial action scripts of the basic generators return their own number
	for _, c := range []string{"1", "2", "3", "4", "5"} {
		t.Acts[c] = map[string]string{"kind": "num", "tag": c}
	}
	// property keys the code writes on its own (the specification builds the same facts)
	for _, k := range []string{"!disabled", "!parents", "!writeKey", "!readKey", "!enabled"} {
		t.Bang[k] = k[1:]
	}
	return t
}

// NoteString records the lexical facts about a string (value, key or id).
func (t *Tables) NoteString(s string) {
	t.mu.Lock()
	defer t.mu.Unlock()
	t.noteString(s)
}

func (t *Tables) noteString(s string) {
	if strings.HasPrefix(s, "?") {
		t.QStr[s] = true
	}
	if strings.HasPrefix(s, "!") {
		t.Bang[s] = s[1:]
	}
	if strings.HasPrefix(s, "!") || strings.HasPrefix(s, "+") {
		t.OneShot[s] = true
	}
	if d, err := time.ParseDuration(s); err == nil && d%time.Second == 0 {
		t.Durs[s] = int64(d / time.Second)
	}
	if tm, err := time.Parse(time.RFC3339, s); err == nil {
		t.Times[s] = tm.UTC().Unix()
	}
}

// NoteAct registers an action script and what it does.
func (t *Tables) NoteAct(code, kind, tag string) {
	t.mu.Lock()
	t.Acts[code] = map[string]string{"kind": kind, "tag": tag}
	t.mu.Unlock()
}

// NoteCondCode registers a condition script and its kind (Query!CodeOn).
func (t *Tables) NoteCondCode(code, kind string) {
	t.mu.Lock()
	t.Codes[code] = kind
	t.mu.Unlock()
}

func (t *Tables) NoteBadJs(s string) {
	t.mu.Lock()
	t.BadJs[s] = true
	t.mu.Unlock()
}

func scalar(k, a string) V {
	return V{"k": k, "a": a, "m": V{}, "l": []interface{}{}}
}

func NumText(f float64) (string, bool) {
	if f == math.Trunc(f) && math.Abs(f) < 1e15 {
		return strconv.FormatInt(int64(f), 10), true
	}
	return strconv.FormatFloat(f, 'g', -1, 64), false
}

// Encode converts a JSON-like Go value.
func (t *Tables) Encode(x interface{}) V {
	t.mu.Lock()
	defer t.mu.Unlock()
	return t.encode(x)
}

func (t *Tables) num(f float64) V {
	s, integral := NumText(f)
	if integral {
		t.Ints[s] = int64(f)
	}
	return scalar("n", s)
}

func (t *Tables) encode(x interface{}) V {
	switch v := x.(type) {
	case nil:
		return scalar("z", "")
	case bool:
		if v {
			return scalar("b", "true")
		}
		return scalar("b", "false")
	case string:
		t.noteString(v)
		if strings.HasPrefix(v, "?") {
			return scalar("v", v)
		}
		return scalar("s", v)
	case float64:
		return t.num(v)
	case float32:
		return t.num(float64(v))
	case int:
		return t.num(float64(v))
	case int64:
		return t.num(float64(v))
	case int32:
		return t.num(float64(v))
	case json.Number:
		f, _ := v.Float64()
		return t.num(f)
	case map[string]interface{}:
		m := V{}
		for k, e := range v {
			t.noteString(k)
			m[k] = t.encode(e)
		}
		return V{"k": "m", "a": "", "m": m, "l": []interface{}{}}
	case []interface{}:
		l := make([]interface{}, 0, len(v))
		for _, e := range v {
			l = append(l, t.encode(e))
		}
		return V{"k": "l", "a": "", "m": V{}, "l": l}
	case []string:
		l := make([]interface{}, 0, len(v))
		for _, e := range v {
			l = append(l, t.encode(e))
		}
		return V{"k": "l", "a": "", "m": V{}, "l": l}
	default:
		// Anything else (core.Map, core.Bindings, structs): go through JSON.
		bs, err := json.Marshal(x)
		if err != nil {
			return scalar("s", fmt.Sprintf("<unencodable %T>", x))
		}
		var y interface{}
		if err := json.Unmarshal(bs, &y); err != nil {
			return scalar("s", fmt.Sprintf("<unencodable %T>", x))
		}
		return t.encode(y)
	}
}

// EncodeBindings encodes a set of bindings: variable -> value.
func (t *Tables) EncodeBindings(b map[string]interface{}) V {
	t.mu.Lock()
	defer t.mu.Unlock()
	m := V{}
	for k, e := range b {
		t.noteString(k)
		m[k] = t.encode(e)
	}
	return m
}

func keys(m map[string]bool) []string {
	acc := make([]string, 0, len(m))
	for k := range m {
		acc = append(acc, k)
	}
	sort.Strings(acc)
	return acc
}

// Header renders the tables as the first line of a trace file.
func (t *Tables) Header(extra map[string]interface{}) map[string]interface{} {
	t.mu.Lock()
	defer t.mu.Unlock()
	h := map[string]interface{}{
		"ev": "header", "bang": t.Bang, "ints": t.Ints, "durs": t.Durs, "times": t.Times,
		"qstr": keys(t.QStr), "badjs": keys(t.BadJs), "acts": t.Acts, "codes": t.Codes, "oneshot": keys(t.OneShot),
	}
	for k, v := range extra {
		h[k] = v
	}
	return h
}

// Decode is the inverse of Encode for documents written by TLC (ToJson of the
// internal form: arrays are lists, an empty map may be rendered as an empty list).
func Decode(x interface{}) interface{} {
	m, ok := x.(map[string]interface{})
	if !ok {
		return nil
	}
	a, _ := m["a"].(string)
	switch m["k"] {
	case "s", "v":
		return a
	case "n":
		f, _ := strconv.ParseFloat(a, 64)
		return f
	case "b":
		return a == "true"
	case "z":
		return nil
	case "m":
		out := map[string]interface{}{}
		if mm, ok := m["m"].(map[string]interface{}); ok {
			for k, v := range mm {
				out[k] = Decode(v)
			}
		}
		return out
	case "l":
		out := []interface{}{}
		if l, ok := m["l"].([]interface{}); ok {
			for _, v := range l {
				out = append(out, Decode(v))
			}
		}
		return out
	}
	return nil
}
