module verif/harness

go 1.14

require (
	github.com/Comcast/rulio v0.0.0
	github.com/robertkrimen/otto v0.0.0-20191219234010-c382bd3c16ff
	gopkg.in/yaml.v2 v2.3.0
)

replace github.com/Comcast/rulio => /repo
