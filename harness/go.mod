module verif/harness

go 1.14

require github.com/Comcast/rulio v0.0.0

replace github.com/Comcast/rulio => /repo
