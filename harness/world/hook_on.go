//go:build verif
// +build verif

package world

import (
	"math/rand"
	"runtime"
	"sync"
	"time"

	"github.com/Comcast/rulio/core"
)

var hookMu sync.Mutex
var hookRand = rand.New(rand.NewSource(1))

// HookCounts counts how often each hook point was passed (evidence that the hooks are live).
var HookCounts = map[string]int{}

// InstallYieldHook makes every verif hook point of rulio a scheduling point: the
// goroutine yields and, now and then, sleeps for a few dozen microseconds, so
// that stress runs visit the interleavings around storage writes and loads.
func InstallYieldHook(seed int64) bool {
	hookRand = rand.New(rand.NewSource(seed))
	hook := func(point string) {
		hookMu.Lock()
		HookCounts[point]++
		n := hookRand.Intn(4)
		d := time.Duration(hookRand.Intn(150)) * time.Microsecond
		hookMu.Unlock()
		runtime.Gosched()
		if n == 0 {
			time.Sleep(d)
		}
	}
	core.VerifHook = hook // the sys package's points call the same hook
	return true
}
