// Package world drives real rulio locations (core.Location over a chosen
// State and Storage) and records every call as one trace event for TLC.
package world

import (
	"bufio"
	"encoding/json"
	"fmt"
	"io/ioutil"
	"os"
	"sort"
	"strings"
	"sync"
	"sync/atomic"
	"time"

	"github.com/Comcast/rulio/core"
	"github.com/Comcast/rulio/cron"
	"github.com/Comcast/rulio/service"
	"github.com/Comcast/rulio/sys"
	"verif/harness/enc"
)

type Config struct {
	State    string // "indexed" | "linear"
	Store    string // "mem" | "bolt"
	MaxFacts int
	Locs     []string
	Via      string // "" (core.Location directly) | "system" (through sys.System) | "http" (service layer)
	Encoding string // for http: one of Encodings, or "all" to rotate
	Sys      SysConfig
	BoltFile string
}

// Recorder accumulates events of many traces and writes them with a header.
type Recorder struct {
	mu     sync.Mutex
	T      *enc.Tables
	events []map[string]interface{}
	Max    int
}

func NewRecorder(max int) *Recorder {
	return &Recorder{T: enc.NewTables(), Max: max}
}

// Append adds the events of one finished trace (kept contiguous).
func (r *Recorder) Append(evs []map[string]interface{}) {
	r.mu.Lock()
	r.events = append(r.events, evs...)
	r.mu.Unlock()
}

func (r *Recorder) Len() int { return len(r.events) }

func (r *Recorder) Write(path string, extra map[string]interface{}) error {
	f, err := os.Create(path)
	if err != nil {
		return err
	}
	defer f.Close()
	w := bufio.NewWriterSize(f, 1<<20)
	if extra == nil {
		extra = map[string]interface{}{}
	}
	extra["max"] = r.Max
	e := json.NewEncoder(w)
	e.SetEscapeHTML(false)
	if err := e.Encode(r.T.Header(extra)); err != nil {
		return err
	}
	for _, ev := range r.events {
		if err := e.Encode(ev); err != nil {
			return err
		}
	}
	return w.Flush()
}

// World is one trace's set of locations over one shared storage.
type World struct {
	Cfg      Config
	R        *Recorder
	Store    core.Storage
	Locs     map[string]*core.Location
	Provider *core.SimpleLocationProvider
	RO       map[string]bool
	Events   []map[string]interface{}
	Prefix   string // storage-level name prefix making this world's names unique
	FS       *FaultStore
	Faulted  bool // a storage failure was injected: memory and storage may disagree from here on
	Sys      *sys.System
	HTTP     *service.HTTPService
	Svc      *service.Service
	nreq     int64
	Cron     *RecCron
	ICron    *cron.Cron
	closers  []func()
}

func init() {
	// rulio logs to stdout through a package-level logger; the harness's
	// stdout carries its own results.
	core.DefaultLogger = core.NewSimpleLogger(ioutil.Discard)
	core.DefaultVerbosity = core.NOTHING
}

func quietCtx() *core.Context {
	ctx := core.NewContext("verif")
	ctx.Verbosity = core.NOTHING
	ctx.LogAccumulatorLevel = core.NOTHING
	return ctx
}

func (w *World) newState(ctx *core.Context, name string) (core.State, error) {
	switch w.Cfg.State {
	case "indexed":
		return core.NewIndexedState(ctx, name, w.Store)
	case "linear":
		return core.NewLinearState(ctx, name, w.Store)
	}
	return nil, fmt.Errorf("unknown state %q", w.Cfg.State)
}

func (w *World) newLocation(name string) (*core.Location, error) {
	ctx := quietCtx()
	st, err := w.newState(ctx, name)
	if err != nil {
		return nil, err
	}
	loc, err := core.NewLocation(ctx, name, st, nil)
	if err != nil {
		return nil, err
	}
	c := core.DefaultControl()
	c.Verbosity = core.NOTHING
	c.MaxFacts = w.Cfg.MaxFacts
	loc.SetControl(c)
	loc.Provider = w.Provider
	return loc, nil
}

func NewWorld(cfg Config, r *Recorder, store core.Storage) (*World, error) {
	w := &World{Cfg: cfg, R: r, Store: store, Locs: map[string]*core.Location{}, RO: map[string]bool{}}
	if cfg.Via == "" && store != nil {
		w.FS = NewFaultStore(store, cfg.Locs)
		w.Store = w.FS
	}
	w.Provider = core.NewSimpleLocationProvider(w.Locs)
	if cfg.Via == "system" || cfg.Via == "http" {
		if err := w.initSystem(cfg.Sys); err != nil {
			return nil, err
		}
	}
	if cfg.Via == "http" {
		if err := w.initHTTP(); err != nil {
			return nil, err
		}
	}
	for _, n := range cfg.Locs {
		if cfg.Via != "" {
			break
		}
		loc, err := w.newLocation(n)
		if err != nil {
			return nil, err
		}
		w.Locs[n] = loc
	}
	names := make([]interface{}, 0, len(cfg.Locs))
	for _, n := range cfg.Locs {
		names = append(names, n)
	}
	w.Events = append(w.Events, map[string]interface{}{"ev": "reset", "locs": names,
		"state": cfg.State, "store": cfg.Store, "via": cfg.Via, "check": cfg.Via != "" && cfg.Sys.CheckExistence,
		"ttl": cfg.Sys.TTL, "cronkind": cfg.Sys.Cron})
	return w, nil
}

// Op is one call of the location API.
type Op struct {
	FailIn int // make the FailIn-th storage write of this operation fail (0: none)
	// Refused: the storage back end itself is going to refuse a write of this operation (a key beyond
	// Bolt's key size limit); judged like an injected failure: the operation has to report an error
	Refused bool
	Op      string
	Loc     string
	Id      string
	Val     map[string]interface{}
	Inh     bool
	WK      string
	RK      string
	Flag    bool
	Names   []string
}

type Res struct {
	Enc   string // how the request was rendered (service layer)
	Bad   bool   // the response could not be understood at all
	Tree  []map[string]interface{}
	Vals  []interface{}
	Msg   string
	C     string
	Id    string
	Val   interface{}
	Found []map[string]interface{}
	Ids   []string
	N     int
}

// Classify maps an error to the class the specification speaks of.
func (r *Res) set(err error) string {
	if err != nil {
		r.Msg = err.Error()
	}
	return Classify(err)
}

func Classify(err error) string {
	if err == nil {
		return "ok"
	}
	switch err.(type) {
	case *core.NotFoundError:
		return "notfound"
	case *core.ExpiredError:
		return "expired"
	}
	msg := err.Error()
	switch {
	case strings.Contains(msg, "Location is disabled"):
		return "disabled"
	case strings.Contains(msg, "not allowed by key"), msg == "Read only":
		return "denied"
	case strings.Contains(msg, "capacity limit reached"):
		return "capacity"
	}
	return "error"
}

func deepCopy(x interface{}) interface{} {
	bs, err := json.Marshal(x)
	if err != nil {
		panic(err)
	}
	var y interface{}
	if err := json.Unmarshal(bs, &y); err != nil {
		panic(err)
	}
	return y
}

// requestion puts the "?" back on the names of the variables that an action
// of the {tag, b: Env.bindings} family reports (scripts see them without it).
func requestion(v interface{}) interface{} {
	m, ok := v.(map[string]interface{})
	if !ok {
		return v
	}
	b, ok := m["b"].(map[string]interface{})
	if !ok {
		return v
	}
	nb := map[string]interface{}{}
	for k, x := range b {
		nb["?"+k] = x
	}
	return map[string]interface{}{"tag": m["tag"], "b": nb}
}

func copyMap(m map[string]interface{}) map[string]interface{} {
	if m == nil {
		return nil
	}
	return deepCopy(m).(map[string]interface{})
}

// WaitMidSecond sleeps, if needed, so that the next few milliseconds do not
// cross a UNIX-second boundary; returns the current second.
func WaitMidSecond() int64 {
	for {
		now := time.Now()
		frac := now.Nanosecond()
		if frac > 50e6 && frac < 850e6 {
			return now.Unix()
		}
		if frac >= 850e6 {
			time.Sleep(time.Duration(1e9-frac+60e6) * time.Nanosecond)
		} else {
			time.Sleep(time.Duration(60e6-frac) * time.Nanosecond)
		}
	}
}

func (w *World) diskIds() map[string]interface{} {
	ctx := quietCtx()
	acc := map[string]interface{}{}
	store := w.Store
	if w.Sys != nil {
		store, _ = w.Sys.PeekStorage(ctx)
	}
	for _, n := range w.Cfg.Locs {
		if store == nil {
			acc[n] = []string{}
			continue
		}
		pairs, err := store.Load(ctx, n)
		ids := make([]string, 0, len(pairs))
		if err == nil {
			for _, p := range pairs {
				ids = append(ids, string(p.K))
			}
		}
		sort.Strings(ids)
		acc[n] = ids
	}
	return acc
}

func (w *World) encFound(srs *core.SearchResults) []map[string]interface{} {
	acc := make([]map[string]interface{}, 0)
	if srs == nil {
		return acc
	}
	for _, sr := range srs.Found {
		bss := make([]interface{}, 0, len(sr.Bindingss))
		for _, bs := range sr.Bindingss {
			bss = append(bss, w.R.T.EncodeBindings(deepCopy(map[string]interface{}(bs)).(map[string]interface{})))
		}
		var body interface{}
		if err := json.Unmarshal([]byte(sr.Js), &body); err != nil {
			body = "<bad Js: " + sr.Js + ">"
		}
		acc = append(acc, map[string]interface{}{"id": sr.Id, "bss": bss, "body": w.R.T.Encode(body)})
	}
	return acc
}

// Do executes one operation on the real code and records it.
// HangLimit: how long one sequential operation may take before the harness gives up on it.  A call
// into rulio that does not come back (a lock left held, say) ends the driver with a VERIF-HANG line,
// which the check reports as a violation once it reproduces.
var HangLimit = 45 * time.Second

func (w *World) Do(op Op) Res {
	type out struct {
		res Res
		ev  map[string]interface{}
	}
	op = w.AvoidRebind(op)
	ch := make(chan out, 1)
	go func() {
		res, ev := w.Exec(op, true)
		ch <- out{res, ev}
	}()
	select {
	case o := <-ch:
		w.Events = append(w.Events, o.ev)
		return o.res
	case <-time.After(HangLimit):
		id := op.Id
		if len(id) > 60 {
			id = id[:20] + "..."
		}
		fmt.Fprintf(os.Stderr, "VERIF-HANG %s@%s id=%s did not return within %v (state %s, after %d operations)\n", op.Op, op.Loc, id, HangLimit, w.Cfg.State, len(w.Events))
		os.Exit(4)
	}
	return Res{}
}

// Exec performs op on the real code and returns its event without recording it.
// With sequential = false it touches no state shared between goroutines (no
// waiting for the middle of a second, no storage images, no storage listing).
func (w *World) Exec(op Op, sequential bool) (Res, map[string]interface{}) {
	var now int64
	if sequential {
		now = WaitMidSecond()
	} else {
		now = time.Now().Unix()
	}
	ctx := quietCtx()
	ctx.WriteKey = op.WK
	ctx.ReadKey = op.RK
	loc := w.Locs[op.Loc]
	res := Res{C: "ok"}
	val := copyMap(op.Val) // the code may modify what it is given
	if w.FS != nil && sequential {
		w.FS.BeginOp()
		if op.FailIn > 0 {
			w.FS.FailIn(op.FailIn)
		}
	}
	if w.HTTP != nil {
		nreq := int(atomic.AddInt64(&w.nreq, 1))
		enc := w.Cfg.Encoding
		if enc == "" || enc == "all" {
			enc = Encodings[nreq%len(Encodings)]
		}
		w.doHTTP(op, &res, enc, prefixes[(nreq/len(Encodings))%len(prefixes)])
		goto recorded
	}
	if w.Sys != nil {
		w.doSys(ctx, op, &res)
		goto recorded
	}
	switch op.Op {
	case "AddFact":
		id, err := loc.AddFact(ctx, op.Id, core.Map(val))
		res.C, res.Id = res.set(err), id
	case "RemFact":
		_, err := loc.RemFact(ctx, op.Id)
		res.C = res.set(err)
	case "GetFact":
		m, err := loc.GetFact(ctx, op.Id)
		res.C = res.set(err)
		if err == nil {
			res.Val = deepCopy(map[string]interface{}(m))
		}
	case "SearchFacts":
		srs, err := loc.SearchFacts(ctx, core.Map(val), op.Inh)
		res.C = res.set(err)
		if err == nil {
			res.Found = w.encFound(srs)
		}
	case "AddRule":
		id, err := loc.AddRule(ctx, op.Id, core.Map(val))
		res.C, res.Id = res.set(err), id
	case "RemRule":
		_, err := loc.RemRule(ctx, op.Id)
		res.C = res.set(err)
	case "GetRule":
		m, err := loc.GetRule(ctx, op.Id)
		res.C = res.set(err)
		if err == nil {
			res.Val = deepCopy(map[string]interface{}(m))
		}
	case "EnableRule":
		res.C = res.set(loc.EnableRule(ctx, op.Id, op.Flag))
	case "SetParents":
		_, err := loc.SetParents(ctx, op.Names)
		res.C = res.set(err)
	case "GetParents":
		ps, err := loc.GetParents(ctx)
		res.C, res.Ids = res.set(err), ps
	case "Clear":
		res.C = res.set(loc.Clear(ctx))
	case "StateSize":
		n, err := loc.StateSize(ctx)
		res.C, res.N = res.set(err), n
	case "ListRules":
		ids, err := loc.ListRules(ctx, op.Inh)
		res.C, res.Ids = res.set(err), ids
	case "SearchRules":
		rs, err := loc.SearchRules(ctx, core.Map(val), op.Inh)
		res.C = res.set(err)
		for id := range rs {
			res.Ids = append(res.Ids, id)
		}
	case "ProcessEvent":
		fr, _ := loc.ProcessEvent(ctx, core.Map(val))
		w.recordTree(fr, &res)
	case "SetReadOnly":
		loc.SetReadOnly(ctx, op.Flag)
	case "Reload":
		nl, err := w.newLocation(op.Loc)
		if err != nil {
			res.C = "error"
		} else {
			w.Locs[op.Loc] = nl
		}
	default:
		panic("unknown op " + op.Op)
	}
recorded:
	after := time.Now().Unix()
	var images []interface{}
	fired := false
	if w.FS != nil && sequential {
		fired = w.FS.Fired
		w.FS.FailIn(0)
		images = w.encodeImages(w.FS.EndOp())
	}
	if images == nil {
		images = []interface{}{}
	}
	fired = fired || op.Refused

	t := w.R.T
	// expiry instants the specification computes from now + ttl
	for d := int64(-5); d <= 20; d++ {
		t.Encode(float64(now + d))
	}
	t.NoteString(op.Id)
	t.NoteString(res.Id)
	t.NoteString(op.WK)
	t.NoteString(op.RK)
	names := make([]interface{}, 0)
	for _, n := range op.Names {
		t.NoteString(n)
		names = append(names, n)
	}
	ids := make([]interface{}, 0)
	for _, n := range res.Ids {
		t.NoteString(n)
		ids = append(ids, n)
	}
	found := res.Found
	if found == nil {
		found = make([]map[string]interface{}, 0)
	}
	var v interface{}
	if op.Val != nil {
		v = map[string]interface{}(op.Val)
	}
	if (op.Op == "CreateLocation" || op.Op == "Clear") && w.Sys != nil {
		// the marker fact the system stored (its timestamp is not predictable)
		if store, _ := w.Sys.PeekStorage(ctx); store != nil {
			pairs, _ := store.Load(quietCtx(), op.Loc)
			for _, p := range pairs {
				if string(p.K) == "!.createdAt" {
					var m interface{}
					json.Unmarshal(p.V, &m)
					v = m
				}
			}
		}
	}
	ev := map[string]interface{}{
		"ev": "op", "op": op.Op, "loc": op.Loc, "id": op.Id, "rid": res.Id, "val": t.Encode(v),
		"inh": op.Inh, "wk": op.WK, "rk": op.RK, "now": now, "flag": op.Flag, "names": names,
		"res": map[string]interface{}{"c": res.C, "id": res.Id, "val": t.Encode(res.Val),
			"found": found, "ids": ids, "n": res.N, "tree": nonNilMaps(res.Tree), "vals": nonNil(res.Vals)},
		"msg": res.Msg, "enc": res.Enc, "crashes": images, "fault": fired,
		"fault_kind": "", "fault_loc": "", "fault_key": "",
	}
	if fired && w.FS != nil && !op.Refused {
		ev["fault_kind"], ev["fault_loc"], ev["fault_key"] = w.FS.FiredKind, w.FS.FiredLoc, w.FS.FiredKey
	}
	if sequential {
		ev["disk"] = w.diskIds()
	}
	if sequential {
		w.Faulted = w.Faulted || fired
	}
	if sequential {
		regs, njobs := w.cronState()
		ev["cron"], ev["cron_n"] = regs, njobs
		if w.Sys != nil {
			// the System's own counters after the operation (spec/StatsTrace.tla, bin/extras)
			if st, err := w.Sys.GetStats(quietCtx()); err == nil {
				ev["stats"] = map[string]interface{}{"calls": st.TotalCalls, "errors": st.ErrorCount, "newlocs": st.NewLocations,
					"AddFact": st.AddFacts, "RemFact": st.RemFacts, "GetFact": st.GetFacts, "SearchFacts": st.SearchFacts,
					"AddRule": st.AddRules, "RemRule": st.RemRules, "GetRule": st.GetRules, "SearchRules": st.SearchRules,
					"ListRules": st.ListRules, "ProcessEvent": st.ProcessEvents}
			}
		}
	}
	if res.Bad {
		ev["res"].(map[string]interface{})["c"] = "unintelligible"
	}
	if after != now {
		ev["void"] = true // crossed a second boundary: the caller discards the trace
	}
	return res, ev
}

// DiskIds lists what storage holds per location (exported for concurrent drivers).
func (w *World) DiskIds() map[string]interface{} { return w.diskIds() }

func nonNil(xs []interface{}) []interface{} {
	if xs == nil {
		return []interface{}{}
	}
	return xs
}

func nonNilMaps(xs []map[string]interface{}) []map[string]interface{} {
	if xs == nil {
		return []map[string]interface{}{}
	}
	return xs
}

// recordTree projects ProcessEvent's work tree into the result.
func (w *World) recordTree(fr *core.FindRules, res *Res) {
	if fr == nil || fr.Disposition == nil || fr.Disposition.Msg != "complete" {
		res.C = "error"
		if fr != nil && fr.Disposition != nil {
			res.Msg = fr.Disposition.Msg
		}
		return
	}
	for _, er := range fr.Children {
		bss := make([]interface{}, 0, len(er.Bindingss))
		for _, bs := range er.Bindingss {
			b := map[string]interface{}{}
			for k, v := range bs {
				if k == "?event" || k == "?location" || k == "?ruleId" {
					continue // added for the condition; not part of the `when` match
				}
				b[k] = v
			}
			bss = append(bss, w.R.T.EncodeBindings(deepCopy(b).(map[string]interface{})))
		}
		res.Found = append(res.Found, map[string]interface{}{"id": er.Rule.Id, "bss": bss,
			"body": w.R.T.Encode(nil)})
		for _, erc := range er.Children {
			node := map[string]interface{}{"id": er.Rule.Id,
				"wb": w.R.T.EncodeBindings(deepCopy(map[string]interface{}(erc.Bindings)).(map[string]interface{})),
				"c":  "ok"}
			if erc.Disposition == nil || erc.Disposition.Msg != "complete" {
				node["c"] = "err"
			}
			execs := make([]interface{}, 0)
			for _, era := range erc.Children {
				code, _ := era.Act.Code.(string)
				ok := era.Disposition != nil && era.Disposition.Msg == "complete"
				execs = append(execs, map[string]interface{}{
					"b":    w.R.T.EncodeBindings(deepCopy(map[string]interface{}(era.Bindings)).(map[string]interface{})),
					"code": code, "ok": ok, "val": w.R.T.Encode(requestion(deepCopy(era.Value)))})
			}
			node["execs"] = execs
			res.Tree = append(res.Tree, node)
		}
	}
	for _, v := range fr.Values {
		res.Vals = append(res.Vals, w.R.T.Encode(requestion(deepCopy(v))))
	}
}

// Void reports whether any operation straddled a second boundary.
func (w *World) Void() bool {
	for _, e := range w.Events {
		if v, ok := e["void"]; ok && v.(bool) {
			return true
		}
	}
	return false
}
