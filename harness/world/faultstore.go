package world

import (
	"encoding/json"
	"errors"
	"sync"

	"github.com/Comcast/rulio/core"
)

// FaultStore wraps a core.Storage: it counts the mutating calls, can make the
// k-th one fail, and photographs the whole store after every mutating call of
// the operation in progress (the images a crash at that point would leave).
type FaultStore struct {
	mu      sync.Mutex
	Inner   core.Storage
	Locs    []string
	failIn  int  // >0: the failIn-th mutating call from now fails
	Fired   bool // a planned failure happened
	record  bool
	Images  []map[string]map[string]string // per mutating call: loc -> id -> stored JSON
	Calls   int
	Loads   map[string]int
	failMsg string
	// what the call that was made to fail was about
	FiredKind string // "add" | "remove" | "clear" | "delete"
	FiredLoc  string
	FiredKey  string
}

var ErrInjected = errors.New("injected storage failure")

func NewFaultStore(inner core.Storage, locs []string) *FaultStore {
	return &FaultStore{Inner: inner, Locs: locs, Loads: map[string]int{}}
}

// BeginOp starts photographing; EndOp returns the images taken.
func (s *FaultStore) BeginOp() {
	s.mu.Lock()
	s.record, s.Images, s.Fired = true, nil, false
	s.mu.Unlock()
}

func (s *FaultStore) EndOp() []map[string]map[string]string {
	s.mu.Lock()
	defer s.mu.Unlock()
	s.record = false
	imgs := s.Images
	s.Images = nil
	return imgs
}

// FailIn arms a failure of the k-th mutating call from now.
func (s *FaultStore) FailIn(k int) {
	s.mu.Lock()
	s.failIn = k
	s.mu.Unlock()
}

func (s *FaultStore) snapshot() map[string]map[string]string {
	ctx := quietCtx()
	img := map[string]map[string]string{}
	for _, l := range s.Locs {
		m := map[string]string{}
		pairs, err := s.Inner.Load(ctx, l)
		if err == nil {
			for _, p := range pairs {
				m[string(p.K)] = string(p.V)
			}
		}
		img[l] = m
	}
	return img
}

// before a mutating call: maybe fail it
func (s *FaultStore) gate(kind, loc, key string) error {
	s.mu.Lock()
	defer s.mu.Unlock()
	s.Calls++
	if s.failIn > 0 {
		s.failIn--
		if s.failIn == 0 {
			s.Fired = true
			s.FiredKind, s.FiredLoc, s.FiredKey = kind, loc, key
			return ErrInjected
		}
	}
	return nil
}

func (s *FaultStore) after() {
	s.mu.Lock()
	rec := s.record
	s.mu.Unlock()
	if rec {
		img := s.snapshot()
		s.mu.Lock()
		s.Images = append(s.Images, img)
		s.mu.Unlock()
	}
}

func (s *FaultStore) Load(ctx *core.Context, loc string) ([]core.Pair, error) {
	s.mu.Lock()
	s.Loads[loc]++
	s.mu.Unlock()
	return s.Inner.Load(ctx, loc)
}

func (s *FaultStore) Add(ctx *core.Context, loc string, data *core.Pair) error {
	if err := s.gate("add", loc, string(data.K)); err != nil {
		return err
	}
	err := s.Inner.Add(ctx, loc, data)
	s.after()
	return err
}

func (s *FaultStore) Remove(ctx *core.Context, loc string, k []byte) (int64, error) {
	if err := s.gate("remove", loc, string(k)); err != nil {
		return 0, err
	}
	n, err := s.Inner.Remove(ctx, loc, k)
	s.after()
	return n, err
}

func (s *FaultStore) Clear(ctx *core.Context, loc string) (int64, error) {
	if err := s.gate("clear", loc, ""); err != nil {
		return 0, err
	}
	n, err := s.Inner.Clear(ctx, loc)
	s.after()
	return n, err
}

func (s *FaultStore) Delete(ctx *core.Context, loc string) error {
	if err := s.gate("delete", loc, ""); err != nil {
		return err
	}
	err := s.Inner.Delete(ctx, loc)
	s.after()
	return err
}

func (s *FaultStore) GetStats(ctx *core.Context, loc string) (core.StorageStats, error) {
	return s.Inner.GetStats(ctx, loc)
}
func (s *FaultStore) Close(ctx *core.Context) error  { return s.Inner.Close(ctx) }
func (s *FaultStore) Health(ctx *core.Context) error { return s.Inner.Health(ctx) }

// encodeImages turns stored JSON into tagged values: loc -> id -> value.
func (w *World) encodeImages(imgs []map[string]map[string]string) []interface{} {
	acc := make([]interface{}, 0, len(imgs))
	for _, img := range imgs {
		e := map[string]interface{}{}
		for loc, m := range img {
			le := map[string]interface{}{}
			for id, js := range m {
				var v interface{}
				if err := json.Unmarshal([]byte(js), &v); err != nil {
					v = "<unparsable stored record: " + js + ">"
				}
				w.R.T.NoteString(id)
				le[id] = w.R.T.Encode(v)
			}
			e[loc] = le
		}
		acc = append(acc, e)
	}
	return acc
}
