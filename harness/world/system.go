package world

import (
	"encoding/json"
	"fmt"
	"sort"
	"strings"
	"sync"
	"time"

	"github.com/Comcast/rulio/core"
	"github.com/Comcast/rulio/cron"
	"github.com/Comcast/rulio/sys"
)

// RecCron is a Cronner that only records what is registered with it.
type RecCron struct {
	mu   sync.Mutex
	Pers bool
	Jobs map[string]string // "location/id" -> schedule
	Log  []string
}

func NewRecCron(persistent bool) *RecCron {
	return &RecCron{Pers: persistent, Jobs: map[string]string{}}
}

func locName(ctx *core.Context) string {
	if ctx != nil && ctx.Location() != nil {
		return ctx.Location().Name
	}
	return ""
}

func (c *RecCron) ScheduleEvent(ctx *core.Context, se *cron.ScheduledEvent) error {
	c.mu.Lock()
	defer c.mu.Unlock()
	c.Jobs[locName(ctx)+"/"+se.Id] = se.Schedule
	c.Log = append(c.Log, "add "+locName(ctx)+"/"+se.Id)
	return nil
}

func (c *RecCron) Schedule(ctx *core.Context, work *cron.ScheduledWork) error { return nil }

func (c *RecCron) Rem(ctx *core.Context, id string) (bool, error) {
	c.mu.Lock()
	defer c.mu.Unlock()
	k := locName(ctx) + "/" + id
	_, had := c.Jobs[k]
	delete(c.Jobs, k)
	c.Log = append(c.Log, "rem "+k)
	return had, nil
}

func (c *RecCron) Persistent() bool { return c.Pers }

// Registered lists "location/id" of all jobs.
func (c *RecCron) Registered() []string {
	c.mu.Lock()
	defer c.mu.Unlock()
	acc := make([]string, 0, len(c.Jobs))
	for k := range c.Jobs {
		acc = append(acc, k)
	}
	sort.Strings(acc)
	return acc
}

// SysConfig selects a System configuration (the location cache is what varies).
type SysConfig struct {
	TTL            string // "never" | "1ms" | "forever"
	CheckExistence bool
	Cron           string // "" / "rec" (recording, persistent) | "rec-ephemeral" | "internal" (cron.InternalCron, never started)
}

func (w *World) initSystem(sc SysConfig) error {
	ctx := quietCtx()
	conf := sys.SystemConfig{Storage: "mem", UnindexedState: w.Cfg.State == "linear", CheckExistence: sc.CheckExistence}
	if w.Cfg.Store == "bolt" {
		conf.Storage = "bolt"
		conf.StorageConfig = w.Cfg.BoltFile
	}
	cont := sys.SystemControl{CachePending: true}
	switch sc.TTL {
	case "never":
		cont.LocationTTL = sys.Never
	case "forever":
		cont.LocationTTL = sys.Forever
	default:
		d, err := time.ParseDuration(sc.TTL)
		if err != nil {
			return err
		}
		cont.LocationTTL = d
	}
	c := core.DefaultControl()
	c.Verbosity = core.NOTHING
	c.MaxFacts = w.Cfg.MaxFacts
	cont.DefaultLocControl = c
	var cronner cron.Cronner
	switch sc.Cron {
	case "", "rec":
		if w.Cron == nil { // a persistent cron service keeps its jobs across a restart of the engine
			w.Cron = NewRecCron(true)
		}
		cronner = w.Cron
	case "rec-ephemeral":
		w.Cron = NewRecCron(false)
		cronner = w.Cron
	case "internal":
		cr, err := cron.NewCron(nil, time.Second, "verif", 100000)
		if err != nil {
			return err
		}
		w.ICron = cr // not started: jobs are registered and removed, never fired
		cronner = &cron.InternalCron{Cron: cr}
	default:
		return fmt.Errorf("unknown cron kind %q", sc.Cron)
	}
	s, err := sys.NewSystem(ctx, conf, cont, cronner)
	if err != nil {
		return err
	}
	w.Sys = s
	return nil
}

func mustJSON(x interface{}) string {
	bs, err := json.Marshal(x)
	if err != nil {
		panic(err)
	}
	return string(bs)
}

// doSys executes op through sys.System.
func (w *World) doSys(ctx *core.Context, op Op, res *Res) {
	s := w.Sys
	val := "{}"
	if op.Val != nil {
		val = mustJSON(op.Val)
	}
	switch op.Op {
	case "CreateLocation":
		_, err := s.CreateLocation(ctx, op.Loc)
		res.C = res.set(err)
	case "AddFact":
		id, err := s.AddFact(ctx, op.Loc, op.Id, val)
		res.C, res.Id = res.set(err), id
		if err != nil {
			res.Id = ""
		}
	case "RemFact":
		_, err := s.RemFact(ctx, op.Loc, op.Id)
		res.C = res.set(err)
	case "GetFact":
		js, err := s.GetFact(ctx, op.Loc, op.Id)
		res.C = res.set(err)
		if err == nil {
			var m interface{}
			if e := json.Unmarshal([]byte(js), &m); e != nil {
				res.C, res.Msg = "error", "unparsable GetFact result: "+js
			}
			res.Val = m
		}
	case "SearchFacts":
		srs, err := s.SearchFacts(ctx, op.Loc, val, op.Inh)
		res.C = res.set(err)
		if err == nil {
			res.Found = w.encFound(srs)
		}
	case "AddRule":
		id, err := s.AddRule(ctx, op.Loc, op.Id, val)
		res.C, res.Id = res.set(err), id
		if err != nil {
			res.Id = ""
		}
	case "RemRule":
		_, err := s.RemRule(ctx, op.Loc, op.Id)
		res.C = res.set(err)
	case "GetRule":
		js, err := s.GetRule(ctx, op.Loc, op.Id)
		res.C = res.set(err)
		if err == nil {
			var m interface{}
			if e := json.Unmarshal([]byte(js), &m); e != nil {
				res.C, res.Msg = "error", "unparsable GetRule result: "+js
			}
			res.Val = m
		}
	case "EnableRule":
		res.C = res.set(s.EnableRule(ctx, op.Loc, op.Id, op.Flag))
	case "SetParents":
		_, err := s.SetParents(ctx, op.Loc, op.Names)
		res.C = res.set(err)
	case "GetParents":
		ps, err := s.GetParents(ctx, op.Loc)
		res.C, res.Ids = res.set(err), ps
	case "Clear":
		res.C = res.set(s.ClearLocation(ctx, op.Loc))
	case "StateSize":
		n, err := s.GetSize(ctx, op.Loc)
		res.C, res.N = res.set(err), n
	case "ListRules":
		ids, err := s.ListRules(ctx, op.Loc, op.Inh)
		res.C, res.Ids = res.set(err), ids
	case "SearchRules":
		rs, err := s.SearchRules(ctx, op.Loc, val, op.Inh)
		res.C = res.set(err)
		for id := range rs {
			res.Ids = append(res.Ids, id)
		}
	case "Restart":
		// a new System over the same (Bolt) storage, with a new cron of the same kind
		if err := s.Close(ctx); err != nil {
			res.C, res.Msg = "error", err.Error()
			return
		}
		if err := w.initSystem(w.Cfg.Sys); err != nil {
			res.C, res.Msg = "error", err.Error()
			return
		}
		// every location is touched once, which loads it
		for _, l := range w.Cfg.Locs {
			w.Sys.GetSize(quietCtx(), l)
		}
	case "Tick":
		// what the cron service does when the job of rule op.Id in op.Loc is due
		fr, err := s.ProcessEvent(ctx, op.Loc, mustJSON(map[string]interface{}{"trigger!": op.Id}))
		w.recordTree(fr, res)
		if fr == nil {
			res.C = res.set(err)
			if err == nil {
				res.C = "error"
			}
		}
	case "ProcessEvent":
		fr, err := s.ProcessEvent(ctx, op.Loc, val)
		w.recordTree(fr, res)
		if res.C == "ok" && err != nil {
			// a work-walk condition that is not a FindRules failure (e.g. a failed action in serial mode)
			res.Msg = err.Error()
		}
		if fr == nil {
			res.C = res.set(err)
			if err == nil {
				res.C = "error"
			}
		}
	default:
		panic(fmt.Sprintf("operation %s is not available through sys.System", op.Op))
	}
}

// cronState: what is registered with the cron service: loc -> ids (recording cron) and the number of jobs.
func (w *World) cronState() (map[string]interface{}, int) {
	regs := map[string]interface{}{}
	for _, l := range w.Cfg.Locs {
		regs[l] = []string{}
	}
	if w.ICron != nil {
		return regs, w.ICron.PendingCount()
	}
	if w.Cron == nil {
		return regs, -1
	}
	all := w.Cron.Registered()
	for _, k := range all {
		i := strings.Index(k, "/")
		l, id := k[:i], k[i+1:]
		w.R.T.NoteString(id)
		if cur, ok := regs[l]; ok {
			regs[l] = append(cur.([]string), id)
		}
	}
	return regs, len(all)
}
