package world

import (
	"encoding/json"
	"sort"
	"strings"
)

// The matcher rulio delegates to re-matches a variable that is bound to a CONTAINER as a pattern,
// i.e. partially (known finding KF-C05-rebind-partial, decided by C05 on the matcher itself).  The
// Engine-level histories must not report that same defect again under every other property, and
// they cannot avoid it by construction alone: whether a repeated variable meets a container depends
// on what happens to be stored.  So, just before a search or an event is issued, the stored
// documents are read straight from storage (no location is touched) and
//   - a search pattern whose repeated variable could meet a container gets distinct variables,
//   - an event that could bind a stored rule's repeated variable to a container loses that property.
// Repeated variables over scalars, which is where their meaning (equality) lies, stay as they are.

// varPaths: variable -> the paths (keys joined by "/"; "*" for "somewhere in this array") it occurs at
func varPaths(p interface{}, path string, acc map[string][]string) {
	switch v := p.(type) {
	case string:
		if strings.HasPrefix(v, "?") {
			acc[v] = append(acc[v], path)
		}
	case map[string]interface{}:
		for k, e := range v {
			varPaths(e, path+"/"+k, acc)
		}
	case []interface{}:
		for _, e := range v {
			varPaths(e, path+"/*", acc)
		}
	}
}

// containersAt: can the value reached from d along path be a container?
func containerAt(d interface{}, path []string) bool {
	if len(path) == 0 {
		switch d.(type) {
		case map[string]interface{}, []interface{}:
			return true
		}
		return false
	}
	switch v := d.(type) {
	case map[string]interface{}:
		if path[0] == "*" {
			return false
		}
		if strings.HasPrefix(path[0], "?") { // a property variable: any key
			for _, e := range v {
				if containerAt(e, path[1:]) {
					return true
				}
			}
			return false
		}
		e, ok := v[path[0]]
		return ok && containerAt(e, path[1:])
	case []interface{}:
		if path[0] != "*" {
			return false
		}
		for _, e := range v {
			if containerAt(e, path[1:]) {
				return true
			}
		}
	}
	return false
}

// rebindRisk: a variable that occurs more than once in p and can meet a container in d
func rebindRisk(p, d interface{}) []string {
	vp := map[string][]string{}
	varPaths(p, "", vp)
	risky := []string{}
	for v, paths := range vp {
		if len(paths) < 2 {
			continue
		}
		for _, path := range paths {
			if containerAt(d, strings.Split(strings.TrimPrefix(path, "/"), "/")) {
				risky = append(risky, v)
				break
			}
		}
	}
	sort.Strings(risky)
	return risky
}

// storedDocs reads every stored document of every location straight from storage.
func (w *World) storedDocs() []map[string]interface{} {
	ctx := quietCtx()
	store := w.Store
	if w.Sys != nil {
		store, _ = w.Sys.PeekStorage(ctx)
	}
	docs := []map[string]interface{}{}
	if store == nil {
		return docs
	}
	for _, n := range w.Cfg.Locs {
		pairs, err := store.Load(ctx, n)
		if err != nil {
			continue
		}
		for _, p := range pairs {
			var m map[string]interface{}
			if json.Unmarshal(p.V, &m) == nil {
				docs = append(docs, m)
			}
		}
	}
	return docs
}

// uniquify gives every occurrence of the given variables but the first a name of its own.
func uniquify(p interface{}, risky map[string]bool, seen map[string]int) interface{} {
	switch v := p.(type) {
	case string:
		if risky[v] {
			seen[v]++
			if seen[v] > 1 {
				return v + "u" + string(rune('0'+seen[v]))
			}
		}
		return v
	case map[string]interface{}:
		m := map[string]interface{}{}
		for _, k := range sortedKeys(v) {
			m[k] = uniquify(v[k], risky, seen)
		}
		return m
	case []interface{}:
		a := make([]interface{}, len(v))
		for i, e := range v {
			a[i] = uniquify(e, risky, seen)
		}
		return a
	}
	return p
}

// AvoidRebind rewrites op (a search or an event) as described above; other operations pass unchanged.
func (w *World) AvoidRebind(op Op) Op {
	switch op.Op {
	case "SearchFacts":
		risky := map[string]bool{}
		for _, d := range w.storedDocs() {
			for _, v := range rebindRisk(op.Val, d) {
				risky[v] = true
			}
		}
		if len(risky) > 0 {
			op.Val = uniquify(op.Val, risky, map[string]int{}).(map[string]interface{})
		}
	case "ProcessEvent", "SearchRules":
		if op.Val == nil {
			return op
		}
		for _, d := range w.storedDocs() {
			rule, _ := d["rule"].(map[string]interface{})
			when, _ := rule["when"].(map[string]interface{})
			pat, _ := when["pattern"].(map[string]interface{})
			if pat == nil {
				continue
			}
			if len(rebindRisk(pat, op.Val)) > 0 {
				// drop the event's container-valued properties that the rule's pattern names
				ev := map[string]interface{}{}
				for k, v := range op.Val {
					_, named := pat[k]
					_, isMap := v.(map[string]interface{})
					_, isArr := v.([]interface{})
					if named && (isMap || isArr) {
						continue
					}
					ev[k] = v
				}
				op.Val = ev
			}
		}
	}
	return op
}
