package world

import (
	"fmt"
	"math/rand"
	"sort"
	"strings"
	"time"

	"verif/harness/enc"
)

// Profile selects which parts of the API a random history exercises.
type Profile struct {
	Name         string
	Len          int
	Locs         []string
	Ids          []string
	Expiry       bool
	Parents      bool
	Keys         bool
	Rules        bool
	Reload       bool
	Cascade      bool
	Fan          bool // most facts are dependents (deleteWith) of one of the first two ids; those are what gets removed
	BadRuleFacts bool // now and then AddFact is given a rule-shaped fact that is no rule (refused by the state)
	HostileQ     bool // ids and strings starting with "?"
	Index        bool // rule patterns that share index prefixes; events instantiated from stored patterns
	Cron         bool // mostly scheduled rules; ticks
	Scheduled    bool // some rules have a schedule instead of a when
	SideEffects  bool // some rule actions report their bindings, throw, or write a fact (Env.AddFact)
	Dispatch     bool // rules with conditions and reporting / failing actions
	MixedEvents  bool // events may hold arrays of mixed scalar types (known finding D_UNSORTABLE_EVENT)
	MaxFacts     int
	Weights      map[string]int
}

type Gen struct {
	R *rand.Rand
	P Profile
	// Homogeneous: arrays in generated data hold elements of one scalar type
	// (what the indexed state's rule index can take in an event).
	Homogeneous bool
	// T receives the action / condition scripts the generator invents.
	T            *enc.Tables
	nact         int
	nvar         int
	inRule       bool
	lastDisabled [2]string                // location and id of the rule disabled last (cron profile)
	forceHit     int                      // the next events are made to match a recently added rule
	known        []map[string]interface{} // when patterns of recently added rules
}

var homogeneous = [][]interface{}{{"x", "y", "tacos"}, {1.0, 2.0, 0.5}, {true, false}}

var scalarVals = []interface{}{1.0, 2.0, "x", "y", true, nil, "tacos", 0.5}

func (g *Gen) pick(xs []string) string { return xs[g.R.Intn(len(xs))] }

func (g *Gen) scalar() interface{} { return scalarVals[g.R.Intn(len(scalarVals))] }

func (g *Gen) value(depth int) interface{} {
	switch n := g.R.Intn(10); {
	case n < 6 || depth <= 0:
		return g.scalar()
	case n < 8:
		m := map[string]interface{}{}
		for i, k := 0, g.R.Intn(3); i < k; i++ {
			m[g.pick([]string{"n", "p", "q"})] = g.value(depth - 1)
		}
		return m
	default:
		// arrays of distinct scalars
		pool := scalarVals
		if g.Homogeneous {
			pool = homogeneous[g.R.Intn(len(homogeneous))]
		}
		perm := g.R.Perm(len(pool))
		k := g.R.Intn(4)
		a := make([]interface{}, 0, k)
		for i := 0; i < k && i < len(pool); i++ {
			a = append(a, pool[perm[i]])
		}
		return a
	}
}

var topKeys = []string{"a", "b", "c", "d"}

func (g *Gen) Fact() map[string]interface{} {
	if g.P.BadRuleFacts && g.R.Intn(10) == 0 {
		// a fact shaped like a rule that cannot be one (no when, no schedule): the write is refused, late,
		// by the state; whatever was under the id before must be exactly as findable as it was
		return map[string]interface{}{"rule": map[string]interface{}{"action": map[string]interface{}{"code": "1"}}}
	}
	m := map[string]interface{}{}
	for i, k := 0, 1+g.R.Intn(3); i < k; i++ {
		m[g.pick(topKeys)] = g.value(2)
	}
	if g.P.Name == "service" && !g.Homogeneous && g.R.Intn(6) == 0 { // in facts, not in events (the rule index takes no such array in an event)
		m["d"] = []interface{}{[]interface{}{map[string]interface{}{"n": g.scalar()}}} // a list in a list, a map below
	}
	if g.P.Fan && g.R.Intn(3) > 0 {
		// many dependents of few ids: fans (what a cascade that fails half-way needs)
		m["deleteWith"] = []interface{}{g.P.Ids[g.R.Intn(2)]}
	} else if g.P.Cascade && g.R.Intn(3) == 0 {
		dw := []interface{}{}
		perm := g.R.Perm(len(g.P.Ids))
		for i, k := 0, 1+g.R.Intn(2); i < k && i < len(perm); i++ {
			t := g.P.Ids[perm[i]] // distinct elements: arrays are sets
			if g.R.Intn(5) == 0 {
				t = "!" + t + ".disabled" // a property fact as the target
			}
			dw = append(dw, t)
		}
		if !g.Homogeneous && g.R.Intn(6) == 0 { // in facts, not in events made the same way
			dw = append([]interface{}{17.0}, dw...) // something that is no id stands first
		}
		m["deleteWith"] = dw
	}
	if g.P.Expiry && g.R.Intn(3) == 0 {
		g.addExpiry(m)
	}
	return m
}

// fanHead: in fan profiles the facts the others depend on are short-lived
func (g *Gen) fanHead(id string, m map[string]interface{}) {
	if g.P.Fan && g.P.Expiry && (id == g.P.Ids[0] || id == g.P.Ids[1]) && g.R.Intn(3) > 0 {
		delete(m, "expires")
		m["ttl"] = []interface{}{"1s", 1.0, "2s"}[g.R.Intn(3)]
	}
}

func (g *Gen) addExpiry(m map[string]interface{}) {
	secs := int64(g.R.Intn(4)) // 0 => already expired at write
	if g.R.Intn(12) == 0 {
		secs = -1
	}
	switch g.R.Intn(4) {
	case 0:
		m["ttl"] = float64(secs)
	case 1:
		m["ttl"] = fmt.Sprintf("%ds", secs)
	case 2:
		m["expires"] = float64(time.Now().Unix() + secs)
	default:
		m["expires"] = time.Unix(time.Now().Unix()+secs, 0).UTC().Format(time.RFC3339)
	}
}

// sortedKeys: generation must not depend on Go's map iteration order (same seed, same history).
func sortedKeys(m map[string]interface{}) []string {
	ks := make([]string, 0, len(m))
	for k := range m {
		ks = append(ks, k)
	}
	sort.Strings(ks)
	return ks
}

// patternOf derives a pattern from a data map: drop keys, replace values by variables.
func (g *Gen) patternOf(d map[string]interface{}, vars []string) map[string]interface{} {
	p := map[string]interface{}{}
	for _, k := range sortedKeys(d) {
		v := d[k]
		if k == "ttl" || k == "expires" {
			continue
		}
		switch g.R.Intn(4) {
		case 0: // drop
		case 1:
			// A variable that meets a container value is never used twice in a history:
			// the matcher re-matches a bound container partially (known finding C05,
			// D_REBIND_PARTIAL), which is about matching, not about what this history checks.
			_, isMap := v.(map[string]interface{})
			_, isArr := v.([]interface{})
			if isMap || isArr {
				g.nvar++
				p[k] = fmt.Sprintf("?c%d", g.nvar)
			} else {
				p[k] = g.pick(vars)
			}
		default:
			switch vv := v.(type) {
			case map[string]interface{}:
				p[k] = g.patternOf(vv, vars)
			case []interface{}:
				a := []interface{}{}
				usedVar := false
				for _, e := range vv {
					switch g.R.Intn(3) {
					case 0:
					case 1:
						if !usedVar {
							a = append(a, g.pick(vars))
							usedVar = true
						}
					default:
						a = append(a, e)
					}
				}
				p[k] = a
			default:
				p[k] = v
			}
		}
	}
	return p
}

func (g *Gen) Pattern() map[string]interface{} {
	vars := []string{"?x", "?y"}
	if g.R.Intn(4) == 0 {
		vars = []string{"?x"} // force repeated variables
	}
	var p map[string]interface{}
	if g.R.Intn(12) == 0 {
		// a variable as the (only) property name ("property variable"), in fact searches and in
		// rules' when patterns
		var v interface{} = g.scalar()
		if g.R.Intn(2) == 0 {
			v = "?v"
		}
		return map[string]interface{}{"?k": v}
	}
	if g.R.Intn(5) == 0 {
		p = map[string]interface{}{}
		for i, k := 0, g.R.Intn(3); i < k; i++ {
			if g.R.Intn(2) == 0 {
				// a different variable per key: what it meets may be a container (see patternOf)
				p[g.pick(topKeys)] = []string{"?x", "?y", "?z"}[i]
			} else {
				p[g.pick(topKeys)] = g.scalar()
			}
		}
	} else {
		p = g.patternOf(g.Fact(), vars)
	}
	return p
}

var condKeys = []string{"a", "b", "c"}
var condVals = []interface{}{1.0, 2.0, "x"}

// smallFact: facts over a narrow value space, so that conditions join.
func (g *Gen) smallFact() map[string]interface{} {
	m := map[string]interface{}{}
	for i, n := 0, 1+g.R.Intn(3); i < n; i++ {
		m[condKeys[g.R.Intn(3)]] = condVals[g.R.Intn(3)]
	}
	return m
}

func (g *Gen) smallPattern(vars []string) map[string]interface{} {
	m := map[string]interface{}{}
	for i, n := 0, 1+g.R.Intn(2); i < n; i++ {
		if g.R.Intn(3) == 0 {
			m[condKeys[g.R.Intn(3)]] = condVals[g.R.Intn(3)]
		} else {
			m[condKeys[g.R.Intn(3)]] = vars[g.R.Intn(len(vars))]
		}
	}
	return m
}

// condition draws a rule condition whose result bag does not depend on the
// order of conjuncts / disjuncts (the value encoding keeps arrays as sets).
func (g *Gen) condition() map[string]interface{} {
	vars := []string{"?x", "?y", "?z"}
	pat := func() map[string]interface{} { return map[string]interface{}{"pattern": g.smallPattern(vars)} }
	switch g.R.Intn(8) {
	case 0, 1, 2:
		return pat()
	case 3, 4:
		// two DIFFERENT sub-queries: the value encoding keeps arrays as sets
		// `or`: every disjunct sees the incoming bindings only, so anything goes (patterns, scripts, not);
		// `and`: conjuncts are threaded, and the encoding does not keep their order, so only conjuncts
		// that commute: patterns over ?x ?y, and scripts (the binding one of them adds, z, is no pattern's)
		isAnd := g.R.Intn(2) == 0
		sub := func() map[string]interface{} {
			switch n := g.R.Intn(5); {
			case n == 0:
				code := []string{"({z: 7})", "true", "false"}[g.R.Intn(3)]
				g.T.NoteCondCode(code, map[string]string{"true": "true", "false": "false", "({z: 7})": "obj"}[code])
				return map[string]interface{}{"code": code}
			case n == 1 && !isAnd:
				return map[string]interface{}{"not": pat()}
			}
			if isAnd {
				return map[string]interface{}{"pattern": g.smallPattern([]string{"?x", "?y"})}
			}
			return pat()
		}
		a, b := sub(), sub()
		for i := 0; i < 20 && fmt.Sprint(a) == fmt.Sprint(b); i++ {
			b = sub()
		}
		if fmt.Sprint(a) == fmt.Sprint(b) {
			return a
		}
		if isAnd {
			return map[string]interface{}{"and": []interface{}{a, b}}
		}
		return map[string]interface{}{"or": []interface{}{a, b}}
	case 5:
		return map[string]interface{}{"not": pat()}
	case 6:
		code := []string{"true", "false", "({z: 7})"}[g.R.Intn(3)]
		kind := map[string]string{"true": "true", "false": "false", "({z: 7})": "obj"}[code]
		g.T.NoteCondCode(code, kind)
		return map[string]interface{}{"code": code}
	default:
		return map[string]interface{}{}
	}
}

func (g *Gen) action() map[string]interface{} {
	g.nact++
	tag := fmt.Sprintf("t%d.%d", g.R.Intn(1000000), g.nact)
	k := g.R.Intn(7)
	if g.P.Keys && g.R.Intn(2) == 0 {
		k = 6 // protected locations: mostly actions that write
	}
	switch k {
	case 6:
		// writes a fact into the event's location, with the caller's keys
		id := "made-" + tag
		code := fmt.Sprintf("Env.AddFact('%s', {made:'%s'})", id, id)
		g.T.NoteAct(code, "addfact", id)
		return map[string]interface{}{"code": code}
	case 0:
		code := fmt.Sprintf("throw 'boom %s'", tag)
		g.T.NoteAct(code, "throw", tag)
		return map[string]interface{}{"code": code}
	case 1:
		return map[string]interface{}{"code": []string{"1", "2", "3"}[g.R.Intn(3)]}
	default:
		code := fmt.Sprintf("({tag:'%s', b:Env.bindings})", tag)
		g.T.NoteAct(code, "ret", tag)
		return map[string]interface{}{"code": code}
	}
}

func (g *Gen) dispatchRule() map[string]interface{} {
	var when map[string]interface{}
	switch g.R.Intn(4) {
	case 0:
		when = map[string]interface{}{"wants": []interface{}{"?w"}}
	case 1:
		when = map[string]interface{}{"a": "?x"}
	default:
		when = g.smallPattern([]string{"?x", "?y"})
	}
	r := map[string]interface{}{"when": map[string]interface{}{"pattern": when}}
	if g.R.Intn(4) > 0 {
		r["condition"] = g.condition()
	}
	if g.R.Intn(3) == 0 {
		r["action"] = g.action()
	} else {
		as := []interface{}{}
		seen := map[string]bool{}
		for i, n := 0, 1+g.R.Intn(3); i < n; i++ {
			a := g.action()
			if c := a["code"].(string); !seen[c] {
				seen[c] = true
				as = append(as, a)
			}
		}
		r["actions"] = as
	}
	// serial actions: only for rules none of whose actions fails (what a failing action of a serial rule
	// leaves undone depends on the order in which the rules happen to be walked)
	failing := false
	for _, a := range actionsOf(r) {
		if c, _ := a["code"].(string); strings.HasPrefix(c, "throw") || strings.HasPrefix(c, "Env.AddFact") {
			failing = true
		}
	}
	if !failing && g.R.Intn(3) == 0 {
		r["policies"] = map[string]interface{}{"serialActions": true}
	}
	return r
}

func actionsOf(r map[string]interface{}) []map[string]interface{} {
	out := []map[string]interface{}{}
	if a, ok := r["action"].(map[string]interface{}); ok {
		out = append(out, a)
	}
	if as, ok := r["actions"].([]interface{}); ok {
		for _, x := range as {
			if a, ok := x.(map[string]interface{}); ok {
				out = append(out, a)
			}
		}
	}
	return out
}

func (g *Gen) dispatchEvent() map[string]interface{} {
	m := g.smallFact()
	if g.R.Intn(3) == 0 {
		m["wants"] = []interface{}{"x", "y", "tacos"}[:1+g.R.Intn(3)]
	}
	return m
}

var ixKeys = []string{"a", "b", "c"}
var ixScalars = []interface{}{1.0, 2.0, "x", "y", true}

func (g *Gen) ixValue(depth int) interface{} {
	switch n := g.R.Intn(16); {
	case n < 5:
		return ixScalars[g.R.Intn(len(ixScalars))]
	case n < 8:
		g.nvar++
		return fmt.Sprintf("?v%d", g.nvar%5) + fmt.Sprintf("%d", g.nvar) // never repeated: may meet a container
	case n < 11 && depth > 0:
		m := map[string]interface{}{}
		for i, k := 0, g.R.Intn(3); i < k; i++ {
			m[[]string{"n", "p"}[g.R.Intn(2)]] = g.ixValue(depth - 1)
		}
		return m
	case n < 14:
		pools := [][]interface{}{{"x", "y", "z"}, {1.0, 2.0, 3.0}, {true, false}}
		pool := pools[g.R.Intn(3)]
		perm := g.R.Perm(len(pool))
		a := []interface{}{}
		for i, k := 0, g.R.Intn(3); i < k; i++ {
			a = append(a, pool[perm[i]])
		}
		if g.R.Intn(3) == 0 && len(pool) > 0 {
			if _, isStr := pool[0].(string); isStr || len(a) == 0 {
				a = append(a, "?x")
			}
		}
		return a
	default:
		return ixScalars[g.R.Intn(len(ixScalars))]
	}
}

// ixPattern: when patterns over few keys, so that rules share index paths.
func (g *Gen) ixPattern() map[string]interface{} {
	m := map[string]interface{}{}
	for i, k := 0, g.R.Intn(3); i < k; i++ {
		m[ixKeys[g.R.Intn(len(ixKeys))]] = g.ixValue(2)
	}
	return m
}

// instantiate turns a pattern into an event it matches: variables get
// values, maps and arrays get extra members.
func (g *Gen) instantiate(p interface{}, bound map[string]interface{}) interface{} {
	switch v := p.(type) {
	case string:
		if len(v) > 0 && v[0] == '?' {
			if b, ok := bound[v]; ok {
				return b
			}
			b := ixScalars[g.R.Intn(len(ixScalars))]
			bound[v] = b
			return b
		}
		return v
	case map[string]interface{}:
		m := map[string]interface{}{}
		for _, k := range sortedKeys(v) {
			key := k
			if len(k) > 0 && k[0] == '?' {
				key = topKeys[g.R.Intn(len(topKeys))] // a variable property name: any concrete one
			}
			m[key] = g.instantiate(v[k], bound)
		}
		if g.R.Intn(3) == 0 {
			m[[]string{"n", "p", "q"}[g.R.Intn(3)]] = ixScalars[g.R.Intn(len(ixScalars))]
		}
		return m
	case []interface{}:
		a := []interface{}{}
		var kind interface{}
		for _, e := range v {
			x := g.instantiate(e, bound)
			a = append(a, x)
			kind = x
		}
		if g.R.Intn(2) == 0 {
			// an extra element of the same scalar type (keeps the event within what the rule index takes)
			switch kind.(type) {
			case string:
				a = append(a, "w")
			case float64:
				a = append(a, 9.0)
			}
		}
		// distinct elements only
		seen := map[interface{}]bool{}
		out := []interface{}{}
		for _, e := range a {
			switch e.(type) {
			case string, float64, bool:
				if seen[e] {
					continue
				}
				seen[e] = true
			}
			out = append(out, e)
		}
		g.R.Shuffle(len(out), func(i, j int) { out[i], out[j] = out[j], out[i] })
		return out
	}
	return p
}

func homogeneousArrays(x interface{}) bool {
	switch v := x.(type) {
	case map[string]interface{}:
		for _, e := range v {
			if !homogeneousArrays(e) {
				return false
			}
		}
	case []interface{}:
		kind := ""
		for _, e := range v {
			k := fmt.Sprintf("%T", e)
			if _, isMap := e.(map[string]interface{}); isMap || e == nil {
				return len(v) == 1
			}
			if kind != "" && k != kind {
				return false
			}
			kind = k
		}
	}
	return true
}

func (g *Gen) remember(p map[string]interface{}) {
	g.known = append(g.known, p)
	if len(g.known) > 6 {
		g.known = g.known[1:]
	}
}

// hitEvent: an event made to match a recently added rule (nil when there is none or it cannot be used).
func (g *Gen) hitEvent() map[string]interface{} {
	if len(g.known) == 0 {
		return nil
	}
	ev, ok := g.instantiate(g.known[g.R.Intn(len(g.known))], map[string]interface{}{}).(map[string]interface{})
	if !ok || (!g.P.MixedEvents && !homogeneousArrays(ev)) {
		return nil
	}
	return ev
}

// EventFor makes an event that matches the given when pattern (nil when that cannot be done
// within what the profile allows in events).
func (g *Gen) EventFor(pattern map[string]interface{}) map[string]interface{} {
	ev, ok := g.instantiate(pattern, map[string]interface{}{}).(map[string]interface{})
	if !ok || (!g.P.MixedEvents && !homogeneousArrays(ev)) {
		return nil
	}
	return ev
}

func (g *Gen) ixEvent() map[string]interface{} {
	var ev map[string]interface{}
	if len(g.known) > 0 && g.R.Intn(5) > 0 {
		ev = g.instantiate(g.known[g.R.Intn(len(g.known))], map[string]interface{}{}).(map[string]interface{})
	} else {
		ev = g.instantiate(g.ixPattern(), map[string]interface{}{}).(map[string]interface{})
	}
	if g.R.Intn(2) == 0 {
		ev[ixKeys[g.R.Intn(len(ixKeys))]] = g.instantiate(g.ixValue(1), map[string]interface{}{})
	}
	if !g.P.MixedEvents && !homogeneousArrays(ev) {
		return g.ixEvent()
	}
	return ev
}

var schedules = []string{"+1h", "+90m", "* * * * * * *", "0 0 1 1 * * *", "!2033-01-01T00:00:00Z"}

// cronRule: mostly scheduled rules (one-shot and recurring), some event rules under the same ids.
func (g *Gen) cronRule() map[string]interface{} {
	r := map[string]interface{}{}
	if g.R.Intn(4) == 0 {
		r["when"] = map[string]interface{}{"pattern": g.smallPattern([]string{"?x"})}
	} else {
		r["schedule"] = schedules[g.R.Intn(len(schedules))]
		if g.R.Intn(3) == 0 {
			r["id"] = g.pick(g.P.Ids) // the body names an id of its own (not necessarily the one it is stored under)
		}
	}
	if g.R.Intn(3) == 0 {
		r["condition"] = map[string]interface{}{"pattern": g.smallPattern([]string{"?y", "?z"})}
	}
	r["action"] = g.action()
	if g.R.Intn(4) == 0 {
		r["deleteWith"] = []interface{}{g.pick(g.P.Ids)}
	}
	return r
}

func (g *Gen) Rule() map[string]interface{} {
	if g.P.Cron {
		return g.cronRule()
	}
	if g.P.Dispatch {
		return g.dispatchRule()
	}
	if g.P.Index {
		p := g.ixPattern()
		g.remember(p)
		r := map[string]interface{}{"when": map[string]interface{}{"pattern": p}}
		if g.P.Scheduled && g.R.Intn(6) == 0 {
			delete(r, "when")
			r["schedule"] = []string{"+1h", "* * * * * * *"}[g.R.Intn(2)]
		}
		if g.P.Expiry && g.R.Intn(2) == 0 {
			g.addExpiry(r)
			if _, str := r["expires"].(string); str {
				delete(r, "expires") // rules take numeric expires only
				r["ttl"] = "2s"
			}
		}
		if g.R.Intn(2) == 0 {
			r["action"] = map[string]interface{}{"code": []string{"1", "2", "3"}[g.R.Intn(3)]}
		} else {
			r["actions"] = []interface{}{map[string]interface{}{"code": []string{"4", "5"}[g.R.Intn(2)]}}
		}
		return r
	}
	g.inRule = true
	r := map[string]interface{}{
		"when": map[string]interface{}{"pattern": g.Pattern()},
	}
	g.inRule = false
	if g.R.Intn(8) == 0 {
		g.forceHit = 2
		// a when pattern the indexed state's rule index refuses (an array of mixed types): written over an
		// existing rule, the refusal must leave the old rule exactly as dispatchable as it was
		k := g.pick(topKeys)
		if g.P.Index {
			k = ixKeys[g.R.Intn(len(ixKeys))]
		}
		r["when"] = map[string]interface{}{"pattern": map[string]interface{}{k: []interface{}{1.0, "tacos"}}}
	}
	if g.R.Intn(2) == 0 {
		r["action"] = map[string]interface{}{"code": "1"}
	} else {
		r["actions"] = []interface{}{map[string]interface{}{"code": "2"}}
	}
	g.remember(r["when"].(map[string]interface{})["pattern"].(map[string]interface{}))
	if g.P.Scheduled && g.R.Intn(5) == 0 {
		// a scheduled rule (never dispatched by an event)
		delete(r, "when")
		r["schedule"] = []string{"+1h", "* * * * * * *", "!2033-01-01T00:00:00Z"}[g.R.Intn(3)]
		if g.R.Intn(3) == 0 {
			r["id"] = g.pick(g.P.Ids) // the body names an id of its own (not necessarily the one it is stored under)
		}
	}
	if g.P.SideEffects && g.R.Intn(2) == 0 {
		delete(r, "actions")
		r["action"] = g.action()
	}
	if g.P.Cascade && g.R.Intn(4) == 0 {
		r["deleteWith"] = []interface{}{g.pick(g.P.Ids)}
	}
	if g.P.Expiry && g.R.Intn(3) == 0 {
		g.addExpiry(r)
	}
	if g.R.Intn(15) == 0 {
		delete(r, "action")
		delete(r, "actions") // invalid: no action
	}
	return r
}

func (g *Gen) weighted() string {
	total := 0
	for _, w := range g.P.Weights {
		total += w
	}
	n := g.R.Intn(total)
	// deterministic order
	for _, k := range opOrder {
		if w, ok := g.P.Weights[k]; ok {
			if n < w {
				return k
			}
			n -= w
		}
	}
	panic("weights")
}

var opOrder = []string{"Tick", "Restart", "BadRequest", "CreateLocation", "AddFact", "RemFact", "GetFact", "SearchFacts", "AddRule", "RemRule", "GetRule",
	"EnableRule", "SetParents", "GetParents", "Clear", "StateSize", "ListRules", "SearchRules",
	"ProcessEvent", "SetReadOnly", "Reload", "Sleep", "SleepReload", "SetParentsFact", "SetKey"}

// Next draws the next operation.
func (g *Gen) Next() Op {
	op := Op{Op: g.weighted(), Loc: g.pick(g.P.Locs)}
	if g.P.Keys {
		op.WK = g.pick([]string{"", "k1", "k2"})
		op.RK = g.pick([]string{"", "k1", "k2"})
	}
	id := g.pick(g.P.Ids)
	switch op.Op {
	case "AddFact":
		op.Id, op.Val = id, g.Fact()
		g.fanHead(id, op.Val)
		if g.P.Dispatch || g.P.Cron {
			op.Val = g.smallFact()
		}
		if g.R.Intn(6) == 0 {
			op.Id = ""
		}
	case "RemFact", "GetFact", "RemRule", "GetRule":
		op.Id = id
		if g.P.Fan && op.Op == "RemFact" && g.R.Intn(4) > 0 {
			op.Id = g.P.Ids[g.R.Intn(2)]
		}
	case "SearchFacts":
		op.Val, op.Inh = g.Pattern(), g.P.Parents && g.R.Intn(2) == 0
		if g.P.Name == "guardinh" {
			op.Inh = g.R.Intn(5) > 0
			if g.R.Intn(3) > 0 {
				op.Loc = g.P.Locs[0] // at the child
			}
		}
	case "AddRule":
		op.Id, op.Val = id, g.Rule()
		if g.R.Intn(8) == 0 {
			op.Id = ""
		}
	case "EnableRule":
		op.Id, op.Flag = id, g.R.Intn(2) == 0
		if g.P.Cron {
			op.Flag = g.R.Intn(10) < 3 // mostly disabling: what a tick must then leave alone
			if !op.Flag {
				g.lastDisabled = [2]string{op.Loc, op.Id}
			}
		}
	case "SetParents":
		// distinct parents (a parent listed twice is visited twice by the code; not in any quantifier)
		perm := g.R.Perm(len(g.P.Locs))
		for i, n := 0, g.R.Intn(3); i < n && i < len(perm); i++ {
			op.Names = append(op.Names, g.P.Locs[perm[i]])
		}
	case "ListRules":
		op.Inh = g.P.Parents && g.R.Intn(2) == 0
	case "SearchRules":
		g.Homogeneous = !g.P.MixedEvents
		op.Val, op.Inh = g.Fact(), g.P.Parents && g.R.Intn(2) == 0
		g.Homogeneous = false
		if g.P.Index {
			op.Val = g.ixEvent()
		}
	case "ProcessEvent":
		g.Homogeneous = !g.P.MixedEvents
		op.Val = g.Fact()
		g.Homogeneous = false
		if !g.P.Dispatch && !g.P.Index && (g.R.Intn(2) == 0 || g.forceHit > 0 || (g.P.Name == "guardacts" && g.R.Intn(3) > 0)) {
			if g.forceHit > 0 {
				g.forceHit--
			}
			if ev := g.hitEvent(); ev != nil {
				op.Val = ev
			}
		}
		if g.P.Dispatch || g.P.Cron {
			op.Val = g.dispatchEvent()
		}
		if g.P.Index {
			op.Val = g.ixEvent()
		}
		if g.P.Name == "guardacts" && g.R.Intn(5) == 0 {
			// the event a cron tick delivers, sent by a client: the rule is fetched by id, behind
			// the same gates as every other read of the location
			op.Val = map[string]interface{}{"trigger!": g.pick(g.P.Ids)}
		}
		delete(op.Val, "ttl")
		delete(op.Val, "expires")
	case "SetReadOnly":
		op.Flag = g.R.Intn(2) == 0
	case "Tick":
		op.Id = id
		if g.lastDisabled[1] != "" && g.R.Intn(3) == 0 {
			op.Loc, op.Id = g.lastDisabled[0], g.lastDisabled[1] // the tick of a rule that was disabled a moment ago
		}
	case "BadRequest":
		op.Id = g.pick([]string{"missing-location", "missing-fact", "fact-not-a-map", "unknown-uri", "empty-body", "location-not-string"})
	case "SetParentsFact":
		// the parents property written or removed through the fact API instead of SetParents
		if g.R.Intn(3) == 0 {
			op.Op, op.Id = "RemFact", "!.parents"
		} else {
			op.Op = "AddFact"
			ns := []interface{}{}
			perm := g.R.Perm(len(g.P.Locs))
			for i, n := 0, g.R.Intn(3); i < n && i < len(perm); i++ {
				ns = append(ns, g.P.Locs[perm[i]])
			}
			op.Val = map[string]interface{}{"!parents": ns}
		}
	case "SetKey":
		// a write/read key or the enabled flag, set through the fact API
		op.Op = "AddFact"
		switch g.R.Intn(3) {
		case 0:
			op.Val = map[string]interface{}{"!writeKey": g.pick([]string{"k1", "k2", ""})}
		case 1:
			op.Val = map[string]interface{}{"!readKey": g.pick([]string{"k1", "k2", ""})}
		default:
			op.Val = map[string]interface{}{"!enabled": g.pick([]string{"yes", "no", "true", "false", ""})}
		}
	}
	return op
}

// PatternOfData derives a pattern from the given data (exported for other drivers).
func (g *Gen) PatternOfData(d map[string]interface{}) map[string]interface{} {
	vars := []string{"?x", "?y"}
	if g.R.Intn(4) == 0 {
		vars = []string{"?x"}
	}
	return g.patternOf(d, vars)
}

// Scalar draws a scalar value.
func (g *Gen) Scalar() interface{} { return g.scalar() }
