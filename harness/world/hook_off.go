//go:build !verif
// +build !verif

package world

// HookCounts is empty without the verif build tag.
var HookCounts = map[string]int{}

// InstallYieldHook reports that no hooks are compiled in.
func InstallYieldHook(seed int64) bool { return false }
