package world

import (
	"bytes"
	"encoding/json"
	"fmt"
	"net/http"
	"net/http/httptest"
	"net/url"
	"strings"

	"github.com/Comcast/rulio/core"
	"github.com/Comcast/rulio/service"
	yaml "gopkg.in/yaml.v2"
)

// Encodings of one logical request (C18).
var Encodings = []string{"query", "form", "json", "envelope", "yaml", "batch", "direct", "yamlbody", "batch2"}

// URI prefixes the service treats alike.
var prefixes = []string{"/api", "", "/v1.2/api", "/v2"}

func (w *World) initHTTP() error {
	svc := &service.Service{System: w.Sys}
	ctx := quietCtx()
	h, err := service.NewHTTPService(ctx, svc)
	if err != nil {
		return err
	}
	w.HTTP, w.Svc = h, svc
	return nil
}

type httpReq struct {
	uri    string
	params map[string]interface{} // string | bool | map (json-typed parameters)
}

// request renders the logical request of op.
func requestOf(op Op) (httpReq, error) {
	p := map[string]interface{}{"location": op.Loc}
	r := httpReq{params: p}
	switch op.Op {
	case "CreateLocation":
		r.uri = "/loc/admin/create"
	case "AddFact":
		r.uri = "/loc/facts/add"
		p["fact"] = map[string]interface{}(op.Val)
		if op.Id != "" {
			p["id"] = op.Id
		}
	case "RemFact":
		r.uri = "/loc/facts/rem"
		p["id"] = op.Id
	case "GetFact":
		r.uri = "/loc/facts/get"
		p["id"] = op.Id
	case "SearchFacts":
		r.uri = "/loc/facts/search"
		p["pattern"] = map[string]interface{}(op.Val)
		if op.Inh {
			p["inherited"] = "true"
		} else if len(op.Id)%2 == 0 && len(fmt.Sprint(op.Val))%2 == 0 {
			p["inherited"] = "false" // said explicitly now and then (a string in query and form renderings)
		}
	case "AddRule":
		r.uri = "/loc/rules/add"
		p["rule"] = map[string]interface{}(op.Val)
		if op.Id != "" {
			p["id"] = op.Id
		}
	case "RemRule":
		r.uri = "/loc/rules/rem"
		p["id"] = op.Id
	case "EnableRule":
		r.uri = "/loc/rules/disable"
		if op.Flag {
			r.uri = "/loc/rules/enable"
		}
		p["id"] = op.Id
	case "SetParents":
		r.uri = "/loc/parents"
		names := op.Names
		if names == nil {
			names = []string{}
		}
		p["set"] = mustJSON(names)
	case "GetParents":
		r.uri = "/loc/parents"
	case "Clear":
		r.uri = "/loc/admin/clear"
	case "StateSize":
		r.uri = "/loc/admin/size"
	case "ListRules":
		r.uri = "/loc/rules/list"
		if op.Inh {
			p["inherited"] = "true"
		} else if len(op.Loc)%2 == 1 {
			p["inherited"] = "false"
		}
	case "ProcessEvent":
		r.uri = "/loc/events/ingest"
		p["event"] = map[string]interface{}(op.Val)
	default:
		return r, fmt.Errorf("no service rendering for %s", op.Op)
	}
	return r, nil
}

func (r httpReq) values() url.Values {
	v := url.Values{}
	for k, x := range r.params {
		switch vv := x.(type) {
		case string:
			v.Set(k, vv)
		default:
			v.Set(k, mustJSON(vv))
		}
	}
	return v
}

func (r httpReq) bodyMap(withURI string) map[string]interface{} {
	m := map[string]interface{}{}
	for k, x := range r.params {
		m[k] = x
	}
	if withURI != "" {
		m["uri"] = withURI
	}
	return m
}

// send performs the request in the given encoding; returns status and body.
func (w *World) send(r httpReq, encoding string, prefix string) (int, string, error) {
	uri := prefix + r.uri
	var req *http.Request
	switch encoding {
	case "query":
		req = httptest.NewRequest("GET", uri+"?"+r.values().Encode(), nil)
	case "form":
		req = httptest.NewRequest("POST", uri, strings.NewReader(r.values().Encode()))
	case "json":
		req = httptest.NewRequest("POST", uri, strings.NewReader(mustJSON(r.bodyMap(""))))
	case "envelope":
		req = httptest.NewRequest("POST", "/api/json", strings.NewReader(mustJSON(r.bodyMap(uri))))
	case "yaml":
		bs, err := yaml.Marshal(r.bodyMap(uri))
		if err != nil {
			return 0, "", err
		}
		req = httptest.NewRequest("POST", "/api/yaml", bytes.NewReader(bs))
	case "yamlbody":
		// a YAML document as the body of a request to the operation's own URI
		bs, err := yaml.Marshal(r.bodyMap(""))
		if err != nil {
			return 0, "", err
		}
		req = httptest.NewRequest("POST", uri, bytes.NewReader(bs))
	case "batch":
		body := map[string]interface{}{"requests": []interface{}{r.bodyMap(uri)}}
		req = httptest.NewRequest("POST", "/api/sys/util/batch", strings.NewReader(mustJSON(body)))
	case "batch2":
		// the request after one that fails: every request of a batch is executed and answered
		failing := map[string]interface{}{"uri": "/api/loc/facts/get", "location": r.params["location"], "id": "no such id, surely"}
		body := map[string]interface{}{"requests": []interface{}{failing, r.bodyMap(uri)}}
		req = httptest.NewRequest("POST", "/api/sys/util/batch", strings.NewReader(mustJSON(body)))
	case "direct":
		// Service.ProcessRequest without HTTP
		out := &bytes.Buffer{}
		ctx := quietCtx()
		_, err := w.Svc.ProcessRequest(ctx, r.bodyMap(uri), out)
		if err != nil {
			return 400, err.Error(), nil
		}
		return 200, out.String(), nil
	default:
		return 0, "", fmt.Errorf("unknown encoding %s", encoding)
	}
	rec := httptest.NewRecorder()
	w.HTTP.ServeHTTP(rec, req)
	return rec.Code, rec.Body.String(), nil
}

// classifyText maps an error message (the service's 400 body) to the specification's class.
func classifyText(msg string) string {
	switch {
	case strings.Contains(msg, "not found: "):
		return "notfound"
	case strings.TrimSpace(msg) == "expired":
		return "expired"
	case strings.Contains(msg, "Location is disabled"):
		return "disabled"
	case strings.Contains(msg, "not allowed by key"), strings.TrimSpace(msg) == "Read only":
		return "denied"
	case strings.Contains(msg, "capacity limit reached"):
		return "capacity"
	}
	return "error"
}

// doHTTP executes op through the service layer in the given encoding.
func (w *World) doHTTP(op Op, res *Res, encoding, prefix string) {
	defer func() {
		if x := recover(); x != nil {
			// the service panicked instead of answering
			res.C, res.Msg, res.Bad = "error", fmt.Sprintf("panic: %v", x), true
		}
	}()
	if op.Op == "BadRequest" {
		w.badRequest(op, res, encoding, prefix)
		return
	}
	r, err := requestOf(op)
	if err != nil {
		panic(err)
	}
	code, body, err := w.send(r, encoding, prefix)
	if err != nil {
		panic(err)
	}
	res.Enc = encoding + " " + prefix + r.uri
	var parsed interface{}
	if encoding == "batch" || encoding == "batch2" {
		// [ {...} ] or [ {"error":"..."} ]
		want := 1
		if encoding == "batch2" {
			want = 2
		}
		var arr []interface{}
		if e := json.Unmarshal([]byte(body), &arr); e != nil || len(arr) != want {
			res.C, res.Msg = "error", fmt.Sprintf("batch response is not a JSON array of %d answers (status %d): %.300s", want, code, body)
			res.Bad = true
			return
		}
		if want == 2 {
			first, _ := arr[0].(map[string]interface{})
			if _, isErr := first["error"]; !isErr && r.params["location"] != nil {
				// fine either way for the first request; only its presence matters
			}
		}
		parsed = arr[want-1]
		if m, ok := parsed.(map[string]interface{}); ok {
			if e, isErr := m["error"]; isErr && len(m) == 1 {
				res.Msg, _ = e.(string)
				res.C = classifyText(res.Msg)
				w.createExists(op, res)
				return
			}
		}
	} else {
		if code == 400 {
			res.Msg = body
			res.C = classifyText(body)
			w.createExists(op, res)
			return
		}
		if code != 200 {
			res.C, res.Msg, res.Bad = "error", fmt.Sprintf("unexpected status %d: %.200s", code, body), true
			return
		}
		if e := json.Unmarshal([]byte(body), &parsed); e != nil {
			res.C, res.Msg, res.Bad = "error", fmt.Sprintf("success response is not JSON: %.300s", body), true
			return
		}
	}
	m, _ := parsed.(map[string]interface{})
	switch op.Op {
	case "AddFact", "AddRule":
		res.Id, _ = m["id"].(string)
	case "GetFact":
		res.Val = m["fact"]
	case "SearchFacts":
		bs, _ := json.Marshal(parsed)
		var srs core.SearchResults
		if e := json.Unmarshal(bs, &srs); e != nil {
			res.C, res.Msg, res.Bad = "error", "search response does not decode: "+e.Error(), true
			return
		}
		res.Found = w.encFound(&srs)
	case "GetParents":
		if xs, ok := m["result"].([]interface{}); ok {
			for _, x := range xs {
				s, _ := x.(string)
				res.Ids = append(res.Ids, s)
			}
		}
	case "StateSize":
		if f, ok := m["size"].(float64); ok {
			res.N = int(f)
		}
	case "ListRules":
		if xs, ok := m["ids"].([]interface{}); ok {
			for _, x := range xs {
				s, _ := x.(string)
				res.Ids = append(res.Ids, s)
			}
		}
	case "ProcessEvent":
		bs, _ := json.Marshal(m["result"])
		var fr core.FindRules
		if e := json.Unmarshal(bs, &fr); e != nil {
			res.C, res.Msg, res.Bad = "error", "work tree does not decode: "+e.Error(), true
			return
		}
		w.recordTree(&fr, res)
	}
}

// createExists: the service reports an already created location as an error; System.CreateLocation does not.
func (w *World) createExists(op Op, res *Res) {
	if op.Op == "CreateLocation" && strings.Contains(res.Msg, "already exists") {
		res.C = "ok"
	}
}

// badRequest sends an ill-formed request (kind in op.Id); anything but an error response is wrong.
func (w *World) badRequest(op Op, res *Res, encoding, prefix string) {
	good, _ := requestOf(Op{Op: "AddFact", Loc: op.Loc, Id: "bad", Val: map[string]interface{}{"x": 1.0}})
	var code int
	var body string
	switch op.Id {
	case "missing-location":
		delete(good.params, "location")
		code, body, _ = w.send(good, encoding, prefix)
	case "missing-fact":
		delete(good.params, "fact")
		code, body, _ = w.send(good, encoding, prefix)
	case "fact-not-a-map":
		good.params["fact"] = "just a string"
		if encoding == "query" || encoding == "form" {
			good.params["fact"] = "[1,2]"
		}
		code, body, _ = w.send(good, encoding, prefix)
	case "unknown-uri":
		good.uri = "/loc/facts/frobnicate"
		code, body, _ = w.send(good, encoding, prefix)
	case "empty-body":
		req := httptest.NewRequest("POST", prefix+"/loc/facts/get?location="+op.Loc+"&id=x", strings.NewReader(""))
		rec := httptest.NewRecorder()
		w.HTTP.ServeHTTP(rec, req)
		code, body = rec.Code, rec.Body.String()
		encoding = "empty-body"
	case "location-not-string":
		good.params["location"] = map[string]interface{}{"a": 1.0}
		if encoding == "query" || encoding == "form" {
			delete(good.params, "location")
		}
		code, body, _ = w.send(good, encoding, prefix)
	default:
		panic("unknown bad request " + op.Id)
	}
	res.Enc = encoding + " " + op.Id
	res.Msg = fmt.Sprintf("%d %.200s", code, body)
	isErr := code == 400
	if encoding == "batch" || encoding == "batch2" {
		var arr []interface{}
		if e := json.Unmarshal([]byte(body), &arr); e == nil && len(arr) >= 1 {
			if m, ok := arr[len(arr)-1].(map[string]interface{}); ok {
				_, isErr = m["error"]
			}
		} else {
			isErr = code == 400
			if !isErr {
				res.Bad = true
			}
		}
	}
	if isErr {
		res.C = "error"
	} else {
		res.C = "ok"
	}
}
