------------------------------- MODULE CacheTrace -------------------------------
(* Recorded runs of the real core.Cache (harness/cmd/cachedrv) against Cache.tla: every call's
   result and the key list afterwards (least recently used first) must be one of the outcomes the
   specification allows for some instant of the call's time bracket. *)
EXTENDS Cache, Json, IOUtils, TLC

Trace == ndJsonDeserialize(IOEnv.TRACE)
VARIABLES l, q, cfg
tvars == <<l, q, cfg>>

Outcomes(e) ==
  CASE e.op = "add" -> Add(q, cfg.limit, cfg.ttl, e.key, e.val, e.t0, e.t1)
    [] e.op = "get" -> Get(q, cfg.limit, e.key, e.t0, e.t1)
    [] e.op = "getwith" -> GetWith(q, cfg.limit, cfg.ttl, e.key, e.val, e.fail, e.t0, e.t1)
    [] e.op = "remove" -> Remove(q, e.key)
    [] e.op = "removeoldest" -> RemoveOldest(q)
    [] e.op = "purge" -> Purge(q)
    [] e.op = "len" -> Length(q)
    [] OTHER -> {}
Fits(o, e) ==
  /\ Keys(o.q) = e.keys
  /\ CASE e.op = "get" -> o.hit = e.hit /\ (e.hit => o.res = e.res)
       [] e.op = "getwith" -> o.called = e.called /\ o.err = e.err /\ (~e.err => o.res = e.res)
       [] e.op = "len" -> o.res = e.res
       [] OTHER -> TRUE
  /\ WithinLimit(o.q, cfg.limit) /\ UniqueKeys(o.q)

NextReset(i) ==
  IF \E j \in (i+1)..Len(Trace) : Trace[j].ev = "reset"
  THEN CHOOSE j \in (i+1)..Len(Trace) : Trace[j].ev = "reset" /\ \A k \in (i+1)..(j-1) : Trace[k].ev # "reset"
  ELSE Len(Trace) + 1

Init == l = 1 /\ q = <<>> /\ cfg = [limit |-> 0, ttl |-> 0]
Next ==
  /\ l <= Len(Trace)
  /\ LET e == Trace[l] IN
       IF e.ev = "reset" THEN q' = <<>> /\ cfg' = [limit |-> e.limit, ttl |-> e.ttl] /\ l' = l + 1
       ELSE IF \E o \in Outcomes(e) : Fits(o, e)
            THEN \E o \in Outcomes(e) : Fits(o, e) /\ q' = o.q /\ l' = l + 1 /\ UNCHANGED cfg
            ELSE /\ PrintT(<<"REJECT", l, e, "state", q, "allowed", Outcomes(e)>>)
                 /\ TLCSet(2, TLCGet(2) \cup {l})
                 /\ l' = NextReset(l) /\ UNCHANGED <<q, cfg>>
Spec == Init /\ [][Next]_tvars

ASSUME TLCSet(1, 0) /\ TLCSet(2, {}) /\ TLCSet(3, {})
Mark == TLCSet(1, IF TLCGet(1) < l THEN l ELSE TLCGet(1))
Accepted ==
  /\ PrintT(<<"CONSUMED", TLCGet(1) - 1, "OF", Len(Trace), "REJECTED", TLCGet(2), "DEVIATIONS", TLCGet(3)>>)
  /\ TLCGet(1) = Len(Trace) + 1
  /\ TLCGet(2) = {}
=============================================================================
