----------------------------- MODULE QueryTrace -----------------------------
(***************************************************************************)
(* Validation of recorded Location.Query calls (and of rule conditions     *)
(* evaluated inside ProcessEvent) against Query!Eval.  Each line: the      *)
(* facts visible to the location, the query tree, the incoming bindings,   *)
(* the bindings returned (a list, compared as a bag), or an error.         *)
(***************************************************************************)
EXTENDS Query, Json, IOUtils

Trace == ndJsonDeserialize(IOEnv.TRACE)
Hdr == Trace[1]
Rng(s) == {s[i] : i \in DOMAIN s}
HdrQStr == Rng(Hdr.qstr)

VARIABLE l

FactsOf(e) == {[loc |-> e.facts[i].loc, id |-> e.facts[i].id, body |-> Norm(e.facts[i].body)] : i \in DOMAIN e.facts}
InBag(e) == SeqBag([i \in DOMAIN e.bin |-> NormB(e.bin[i])])
Expected(e) == EvalTop(NormTree(e.q), InBag(e), FactsOf(e))
Got(e) == SeqBag([i \in DOMAIN e.res |-> NormB(e.res[i])])

Ok2(e) == LET x == Expected(e) IN IF x.err THEN e.err ELSE ~e.err /\ Got(e) = x.bag

Init == l = 2
Next == /\ l <= Len(Trace)
        /\ IF Ok2(Trace[l]) THEN TRUE
           ELSE /\ PrintT(<<"REJECT", l, Expected(Trace[l])>>)
                /\ TLCSet(2, TLCGet(2) \cup {l})
        /\ l' = l + 1
Spec == Init /\ [][Next]_l

ASSUME TLCSet(1, 0) /\ TLCSet(2, {}) /\ TLCSet(3, {})
Mark == TLCSet(1, IF TLCGet(1) < l THEN l ELSE TLCGet(1))
Accepted ==
  /\ PrintT(<<"CONSUMED", TLCGet(1) - 1, "OF", Len(Trace), "REJECTED", TLCGet(2), "DEVIATIONS", TLCGet(3)>>)
  /\ TLCGet(1) = Len(Trace) + 1
  /\ TLCGet(2) = {}
=============================================================================
