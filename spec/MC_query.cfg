SPECIFICATION Spec
CONSTANTS
  Deep = FALSE
  QStr = {"?x", "?y", "?z"}
INVARIANTS Identities ShortCircuitDrops NotIsFilter AndComposes ResultsGrounded
CHECK_DEADLOCK FALSE
