------------------------------- MODULE CronTrace -------------------------------
(***************************************************************************)
(* Recorded runs of the real in-memory cron service (harness/cmd/crondrv)  *)
(* checked against Cron.tla, with both repairs in place (Tracked,          *)
(* ResetAlways).  A trace holds several scenarios, each begun by a "reset" *)
(* line.  Lines are in the order in which they were recorded (one global   *)
(* sequence number; the service's own steps are reported by hook points    *)
(* while it holds its lock, so their order is the order of its critical    *)
(* sections):                                                              *)
(*   ins, pop, rem    the service's steps  -> Add / Rearm, Pop, RemId      *)
(*   add, remret      a client's call has returned: the steps it stands    *)
(*                    for must have been taken inside it, and the due time *)
(*                    must be the one asked for                            *)
(*   fire, done       a job's function starts and returns                  *)
(*   ctl              suspend / resume / pause were sent                   *)
(*   snap, end        the service's timeline, read under its lock, must be *)
(*                    the model's; at the end (after a long quiet time)    *)
(*                    nothing that is due may still be waiting             *)
(* Every line must be explained by the model's state; the properties of    *)
(* Cron.tla are evaluated on that state before each line.                  *)
(***************************************************************************)
EXTENDS Cron, Sequences, Json, IOUtils, TLC

Trace == ndJsonDeserialize(IOEnv.TRACE)

VARIABLES l,     \* the line to be explained next
          gh     \* bookkeeping: [jobs: g -> what is known of the job, rems: rem steps no call accounts for yet,
                 \*               off: the clock's offset in its second]
tvars == <<vars, l, gh>>

Slack == 1000000      \* microseconds: at the end, nothing may be overdue by more than this
Second == 1000000

Max(a, b) == IF a < b THEN b ELSE a
JobOf(S, g) == CHOOSE j \in S : j.g = g
HasJob(S, g) == \E j \in S : j.g = g
Known(g) == g \in DOMAIN gh.jobs
WholeSecond(t) == (t + gh.off) % Second = 0
Ext(f, k, v) == [x \in DOMAIN f \cup {k} |-> IF x = k THEN v ELSE f[x]]

StateOk == UniquePending /\ NoStaleEntry /\ NoEarlyFire /\ OncePerOccurrence

NoGhost == [jobs |-> <<>>, rems |-> {}, off |-> 0]
ResetTo(e) ==
  /\ now' = 0 /\ timeline' = {} /\ running' = {} /\ tracked' = {} /\ timer' = Off
  /\ suspended' = FALSE /\ active' = [i \in {e.ids[k] : k \in DOMAIN e.ids} |-> 0] /\ pops' = {}
  /\ gh' = [jobs |-> <<>>, rems |-> {}, off |-> e.off]

-----------------------------------------------------------------------------
\* the service's steps

\* found must tell of a pending job; for a job that is only running (its function executes) either
\* answer is acceptable, as long as the removal takes effect
RemGuard(e) == IF e.id \in IdsOf(timeline) THEN e.found
               ELSE IF e.id \in IdsOf(tracked) THEN TRUE ELSE ~e.found
RemEffect(e) ==
  /\ RemId(e.id)
  /\ gh' = [gh EXCEPT !.rems = @ \cup {[id |-> e.id, seq |-> e.seq, found |-> e.found]}]
  /\ UNCHANGED now

NewJob(e) == [id |-> e.id, g |-> e.g, next |-> e.next, rec |-> e.rec]
\* the first insertion of a job is the Add that made it; any other puts a recurring job back
InsGuard(e) ==
  /\ e.g # 0
  /\ IF ~Known(e.g)
     THEN e.id \notin IdsOf(timeline) /\ e.id \notin IdsOf(tracked)
     ELSE /\ HasJob(running, e.g) /\ JobOf(running, e.g) \in tracked
          /\ gh.jobs[e.g].open /\ gh.jobs[e.g].id = e.id
          /\ WholeSecond(e.next) /\ e.next > gh.jobs[e.g].doneT /\ e.next - Second <= e.now
InsEffect(e) ==
  /\ IF ~Known(e.g)
     THEN /\ Add(NewJob(e))
          /\ gh' = [gh EXCEPT !.jobs = Ext(@, e.g, [id |-> e.id, rec |-> e.rec, first |-> e.seq, firstNext |-> e.next,
                                                   lastNext |-> e.next, pops |-> 0, fires |-> 0, open |-> FALSE, doneT |-> 0])]
     ELSE /\ Rearm(JobOf(running, e.g), e.next)
          /\ gh' = [gh EXCEPT !.jobs[e.g].open = FALSE]
  /\ now' = Max(now, e.now)

PopGuard(e) ==
  /\ Known(e.g) /\ HasJob(timeline, e.g)
  /\ LET j == JobOf(timeline, e.g) IN j.id = e.id /\ j.next = e.next /\ IsHead(j, timeline) /\ j.next <= e.now
PopEffect(e) ==
  /\ Pop(JobOf(timeline, e.g), e.now) /\ timer' = Off
  /\ gh' = [gh EXCEPT !.jobs[e.g].pops = @ + 1, !.jobs[e.g].lastNext = e.next]
  /\ now' = Max(now, e.now)

-----------------------------------------------------------------------------
\* the clients' calls

RemsIn(e) == {r \in gh.rems : r.id = e.id /\ e.s0 < r.seq /\ r.seq < e.seq}

\* Add returned: inside the call, one rem of the id and then the job's first insertion, due when asked
AddGuard(e) ==
  /\ ~e.err /\ Known(e.g)
  /\ LET j == gh.jobs[e.g] IN
       /\ j.id = e.id /\ j.rec = e.rec /\ e.s0 < j.first /\ j.first < e.seq
       /\ IF e.rec THEN WholeSecond(j.firstNext) /\ j.firstNext > e.t0 /\ j.firstNext <= e.t1 + Second
          ELSE IF e.d = -2 THEN j.firstNext = e.abs
          ELSE e.t0 + e.d <= j.firstNext /\ j.firstNext <= e.t1 + e.d
  /\ Cardinality(RemsIn(e)) = 1
AddEffect(e) == gh' = [gh EXCEPT !.rems = @ \ RemsIn(e)] /\ UNCHANGED vars

RemRetGuard(e) == ~e.err /\ Cardinality(RemsIn(e)) = 1 /\ \A r \in RemsIn(e) : r.found = e.found
RemRetEffect(e) == gh' = [gh EXCEPT !.rems = @ \ RemsIn(e)] /\ UNCHANGED vars

\* a function starts only for a pop, once, and not before the job is due
FireGuard(e) == Known(e.g) /\ gh.jobs[e.g].id = e.id /\ gh.jobs[e.g].fires < gh.jobs[e.g].pops /\ e.t >= gh.jobs[e.g].lastNext
FireEffect(e) == gh' = [gh EXCEPT !.jobs[e.g].fires = @ + 1] /\ UNCHANGED vars

DoneGuard(e) == Known(e.g) /\ gh.jobs[e.g].fires = gh.jobs[e.g].pops /\ ~gh.jobs[e.g].open /\ HasJob(running, e.g)
DoneEffect(e) ==
  /\ IF gh.jobs[e.g].rec
     THEN gh' = [gh EXCEPT !.jobs[e.g].open = TRUE, !.jobs[e.g].doneT = e.t] /\ UNCHANGED vars
     ELSE Finish(JobOf(running, e.g)) /\ UNCHANGED <<gh, now>>

CtlGuard(e) == ~e.err
CtlEffect(e) ==
  /\ suspended' = (IF e.cmd = "suspend" THEN TRUE ELSE IF e.cmd = "resume" THEN FALSE ELSE suspended)
  /\ UNCHANGED <<now, timeline, running, tracked, timer, active, pops, gh>>

\* the real timeline is the model's, and it is in order
Seen(e) == {<<e.pending[k].id, e.pending[k].g, e.pending[k].next>> : k \in DOMAIN e.pending}
SnapGuard(e) ==
  /\ Seen(e) = {<<j.id, j.g, j.next>> : j \in timeline}
  /\ Len(e.pending) = Cardinality(timeline) /\ e.count = Len(e.pending)
  /\ \A i, k \in DOMAIN e.pending : i < k => e.pending[i].next <= e.pending[k].next
EndGuard(e) ==
  /\ SnapGuard(e)
  /\ gh.rems = {}                                                    \* every removal was some call's
  /\ \A g \in DOMAIN gh.jobs : gh.jobs[g].fires = gh.jobs[g].pops     \* every pop ran its function, once
  /\ ~suspended => \A j \in timeline : j.next > e.t - Slack          \* nothing due is left waiting
NoEffect == UNCHANGED <<vars, gh>>

Guard(e) ==
  /\ StateOk
  /\ CASE e.ev = "rem" -> RemGuard(e)
       [] e.ev = "ins" -> InsGuard(e)
       [] e.ev = "pop" -> PopGuard(e)
       [] e.ev = "add" -> AddGuard(e)
       [] e.ev = "remret" -> RemRetGuard(e)
       [] e.ev = "fire" -> FireGuard(e)
       [] e.ev = "done" -> DoneGuard(e)
       [] e.ev = "ctl" -> CtlGuard(e)
       [] e.ev = "snap" -> SnapGuard(e)
       [] e.ev = "end" -> EndGuard(e)
       [] OTHER -> FALSE
Effect(e) ==
  CASE e.ev = "rem" -> RemEffect(e)
    [] e.ev = "ins" -> InsEffect(e)
    [] e.ev = "pop" -> PopEffect(e)
    [] e.ev = "add" -> AddEffect(e)
    [] e.ev = "remret" -> RemRetEffect(e)
    [] e.ev = "fire" -> FireEffect(e)
    [] e.ev = "done" -> DoneEffect(e)
    [] e.ev = "ctl" -> CtlEffect(e)
    [] OTHER -> NoEffect

NextReset(i) ==
  IF \E j \in (i+1)..Len(Trace) : Trace[j].ev = "reset"
  THEN CHOOSE j \in (i+1)..Len(Trace) : Trace[j].ev = "reset" /\ \A k \in (i+1)..(j-1) : Trace[k].ev # "reset"
  ELSE Len(Trace) + 1

Init == InitWith({}) /\ l = 1 /\ gh = NoGhost

Next ==
  /\ l <= Len(Trace)
  /\ LET e == Trace[l] IN
       IF e.ev = "reset" THEN ResetTo(e) /\ l' = l + 1
       ELSE IF Guard(e) THEN Effect(e) /\ l' = l + 1
       ELSE /\ PrintT(<<"REJECT", l, e, "timeline", timeline, "running", running, "tracked", tracked, "ghost", gh>>)
            /\ TLCSet(2, TLCGet(2) \cup {l})
            /\ l' = NextReset(l)
            /\ UNCHANGED <<vars, gh>>

Spec == Init /\ [][Next]_tvars

ASSUME TLCSet(1, 0) /\ TLCSet(2, {}) /\ TLCSet(3, {})
Mark == TLCSet(1, IF TLCGet(1) < l THEN l ELSE TLCGet(1))
Accepted ==
  /\ PrintT(<<"CONSUMED", TLCGet(1) - 1, "OF", Len(Trace), "REJECTED", TLCGet(2), "DEVIATIONS", TLCGet(3)>>)
  /\ TLCGet(1) = Len(Trace) + 1
  /\ TLCGet(2) = {}
=============================================================================
