SPECIFICATION Spec
CONSTANTS
  Shapes <- ShapesSmall
  Budgets <- BudgetsAll
  MaxCalls = 3
INVARIANTS ExactlyOnce AtMostOncePerCall ConcurrentSiblingsRun SerialPrefix ReturnTellsFailure ResumeKeepsComplete ValuesGrow
VIEW View
CHECK_DEADLOCK FALSE
