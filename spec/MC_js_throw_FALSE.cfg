SPECIFICATION Spec
CONSTANTS
  Class = "throw"
  HasTimeout = FALSE
  Buffered = TRUE
INVARIANT Outcome
PROPERTY Returns
