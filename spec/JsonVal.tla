------------------------------- MODULE JsonVal -------------------------------
(***************************************************************************)
(* JSON values in a homogeneous encoding that TLC can compare.             *)
(*                                                                         *)
(* Every value is a record [k, a, m, l]:                                   *)
(*   k = "s" string, "n" number, "b" boolean, "z" null   (a = the text)    *)
(*   k = "v" a string that starts with "?" (a pattern variable when it     *)
(*           occurs in a pattern, an ordinary string in data)              *)
(*   k = "m" map     (m = function from key strings to values)             *)
(*   k = "l" array   (l = SET of values: rulio's arrays are sets)          *)
(* Unused fields hold "", <<>>, {} so that any two values are comparable   *)
(* field by field without TLC ever comparing a string with a function.     *)
(* Traces carry arrays as JSON lists; Norm turns them into sets.           *)
(***************************************************************************)
EXTENDS TLC, Sequences, Naturals, FiniteSets

Scalar(k, s) == [k |-> k, a |-> s, m |-> <<>>, l |-> {}]
Str(s)   == Scalar("s", s)
NumA(s)  == Scalar("n", s)
Num(n)   == Scalar("n", ToString(n))
BoolV(b) == Scalar("b", IF b THEN "true" ELSE "false")
Null     == Scalar("z", "")
Var(s)   == Scalar("v", s)
Obj(f)   == [k |-> "m", a |-> "", m |-> f, l |-> {}]
Arr(S)   == [k |-> "l", a |-> "", m |-> <<>>, l |-> S]
EmptyObj == Obj(<<>>)

IsObj(x) == x.k = "m"
IsArr(x) == x.k = "l"
IsVar(x) == x.k = "v"
IsStr(x) == x.k = "s"
IsScalar(x) == x.k \in {"s", "n", "b", "z", "v"}

Has(x, key) == x.k = "m" /\ key \in DOMAIN x.m
Keys(x) == IF x.k = "m" THEN DOMAIN x.m ELSE {}

\* x with key := v (x a map)
Put(x, key, v) == Obj([f \in DOMAIN x.m \cup {key} |-> IF f = key THEN v ELSE x.m[f]])
\* x without key
Del(x, key) == Obj([f \in DOMAIN x.m \ {key} |-> x.m[f]])

\* from the JSON-deserialised form (arrays are sequences) to the internal form
RECURSIVE Norm(_)
Norm(x) == [k |-> x.k, a |-> x.a,
            m |-> [f \in DOMAIN x.m |-> Norm(x.m[f])],
            l |-> {Norm(x.l[i]) : i \in DOMAIN x.l}]

\* bindings: JSON object var -> value
NormB(b) == [v \in DOMAIN b |-> Norm(b[v])]
NormBs(bs) == {NormB(bs[i]) : i \in DOMAIN bs}

\* all variables occurring in a value
RECURSIVE VarsOf(_)
VarsOf(x) == IF x.k = "v" THEN {x.a}
             ELSE IF x.k = "m" THEN UNION {VarsOf(x.m[f]) : f \in DOMAIN x.m}
             ELSE IF x.k = "l" THEN UNION {VarsOf(e) : e \in x.l}
             ELSE {}

\* substitute bound variables (core.Bindings.Bind)
RECURSIVE Subst(_, _)
Subst(x, b) == IF x.k = "v" THEN (IF x.a \in DOMAIN b THEN b[x.a] ELSE x)
               ELSE IF x.k = "m" THEN Obj([f \in DOMAIN x.m |-> Subst(x.m[f], b)])
               ELSE IF x.k = "l" THEN Arr({Subst(e, b) : e \in x.l})
               ELSE x
=============================================================================
