---------------------------------- MODULE Cron ----------------------------------
(***************************************************************************)
(* The in-memory cron service (cron/cron.go).                              *)
(*                                                                         *)
(* State: the timeline of pending jobs (the code keeps it sorted by Next;  *)
(* here a set, with the head the entry of least Next), the jobs whose      *)
(* functions are executing (each in a goroutine of its own), the one timer *)
(* the loop sleeps on, and whether the loop is suspended.  One action per  *)
(* critical section of the code (everything between c.Lock and c.Unlock):  *)
(*                                                                         *)
(*   Add(j)        Cron.schedule: rem(id), then insert (which re-arms the  *)
(*                 timer for the head)                                     *)
(*   RemId(i)      Cron.Rem: rem(id); the timer is left alone              *)
(*   TimerFires    the loop's timer case: pop the head if it is due        *)
(*   Rearm(j, t)   a recurring job's function returned: back on the        *)
(*                 timeline for its next occurrence                        *)
(*   Finish(j)     a function returned and nothing is put back             *)
(*   Suspend, Resume (a pause is a Suspend followed by a Resume)           *)
(*   Advance(t)    time passes (the other actions leave now' to the module *)
(*                 that uses them: CronMC keeps it, CronTrace binds it to  *)
(*                 the recorded time)                                      *)
(*                                                                         *)
(* Two repaired defects are kept as switches so that TLC shows what each   *)
(* repair buys (MC_cron_untracked.cfg and MC_cron_losttimer.cfg must fail):*)
(*   Tracked      FALSE: a job whose function is running is in no data     *)
(*                structure, so a Rem or a replacing Add misses it, and    *)
(*                the finished run puts it back (and throws out its        *)
(*                replacement).                                            *)
(*   ResetAlways  FALSE: the timer is re-armed only after a pop; when it   *)
(*                fires for a head that was removed meanwhile, nothing     *)
(*                arms it again and the remaining jobs are stranded.       *)
(***************************************************************************)
EXTENDS Integers, FiniteSets

CONSTANTS Tracked, ResetAlways

VARIABLES now,        \* the clock
          timeline,   \* set of jobs [id, g, next, rec]: g tells apart the jobs added under one id
          running,    \* jobs whose functions are executing
          tracked,    \* the recurring ones among them that are still to be put back (Cron.running)
          timer,      \* -1: stopped; otherwise the time it is set to go off
          suspended,
          active,     \* ghost: id -> the g the clients last added and have not removed (0: none)
          pops        \* ghost: every pop so far, [id, g, next, at, n]
vars == <<now, timeline, running, tracked, timer, suspended, active, pops>>

Off == -1
IdsOf(S) == {j.id : j \in S}
Without(S, i) == {j \in S : j.id # i}
IsHead(j, S) == j \in S /\ \A k \in S : j.next <= k.next
\* resetTimer: for the head, or stopped when there is none
Reset(S) == IF S = {} THEN Off ELSE (CHOOSE j \in S : IsHead(j, S)).next

InitWith(ids) ==
  /\ now = 0 /\ timeline = {} /\ running = {} /\ tracked = {} /\ timer = Off
  /\ suspended = FALSE /\ active = [i \in ids |-> 0] /\ pops = {}

Advance(t) == t > now /\ now' = t
              /\ UNCHANGED <<timeline, running, tracked, timer, suspended, active, pops>>

RemFound(i) == i \in IdsOf(timeline) \/ (Tracked /\ i \in IdsOf(tracked))

RemId(i) ==
  /\ timeline' = Without(timeline, i)
  /\ tracked' = IF Tracked THEN Without(tracked, i) ELSE tracked
  /\ active' = [active EXCEPT ![i] = 0]
  /\ UNCHANGED <<running, timer, suspended, pops>>

Add(j) ==
  /\ timeline' = Without(timeline, j.id) \cup {j}
  /\ tracked' = IF Tracked THEN Without(tracked, j.id) ELSE tracked
  /\ timer' = Reset(timeline')                     \* insert resets the timer, suspended or not
  /\ active' = [active EXCEPT ![j.id] = j.g]
  /\ UNCHANGED <<running, suspended, pops>>

\* the part of the timer case that takes the head
Pop(j, t) ==
  /\ IsHead(j, timeline) /\ j.next <= t
  /\ timeline' = timeline \ {j}
  /\ running' = running \cup {j}
  /\ tracked' = IF j.rec THEN tracked \cup {j} ELSE tracked
  /\ pops' = pops \cup {[id |-> j.id, g |-> j.g, next |-> j.next, at |-> t, n |-> Cardinality(pops)]}
  /\ UNCHANGED <<suspended, active>>

TimerFires ==
  /\ timer # Off /\ timer <= now
  /\ \/ \E j \in timeline : Pop(j, now) /\ timer' = Reset(timeline')
     \/ /\ ~ \E j \in timeline : IsHead(j, timeline) /\ j.next <= now
        /\ timer' = IF ResetAlways THEN Reset(timeline) ELSE Off
        /\ UNCHANGED <<timeline, running, tracked, suspended, active, pops>>

Rearm(j, t) ==
  /\ j \in running /\ j.rec /\ (Tracked => j \in tracked)
  /\ running' = running \ {j}
  /\ tracked' = tracked \ {j}
  /\ timeline' = Without(timeline, j.id) \cup {[j EXCEPT !.next = t]}
  /\ timer' = Reset(timeline')
  /\ UNCHANGED <<suspended, active, pops>>

Finish(j) ==
  /\ j \in running /\ (~j.rec \/ (Tracked /\ j \notin tracked))
  /\ running' = running \ {j}
  /\ UNCHANGED <<timeline, tracked, timer, suspended, active, pops>>

Suspend == /\ suspended' = TRUE /\ timer' = Off
           /\ UNCHANGED <<timeline, running, tracked, active, pops>>
Resume == /\ suspended /\ suspended' = FALSE /\ timer' = Reset(timeline)
          /\ UNCHANGED <<timeline, running, tracked, active, pops>>

-----------------------------------------------------------------------------
\* C16 on the in-memory service
UniquePending == \A j, k \in timeline : j.id = k.id => j = k
\* nothing that was removed or replaced is pending (so it cannot fire: only pending jobs are popped)
NoStaleEntry == \A j \in timeline : active[j.id] = j.g
NoEarlyFire == \A p \in pops : p.next <= p.at
\* a one-shot job is popped once; a recurring one once per occurrence
OncePerOccurrence == \A p, q \in pops : (p.id = q.id /\ p.g = q.g /\ p.next = q.next) => p = q
\* whatever is pending will be served: the timer is set, and for no later than the head
TimerCovers == (~suspended /\ timeline # {}) => (timer # Off /\ timer <= Reset(timeline))
=============================================================================
