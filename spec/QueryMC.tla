------------------------------- MODULE QueryMC -------------------------------
(***************************************************************************)
(* Model check of Query.tla: on all query trees up to depth 2 over a small *)
(* leaf catalogue and all subsets of a small fact catalogue, Eval obeys    *)
(* the algebraic laws the property statement implies.                      *)
(***************************************************************************)
EXTENDS Query

CONSTANT Deep  \* TRUE: trees up to depth 2

VARIABLES q, facts

O1(k, v) == Obj(k :> v)
O2(k1, v1, k2, v2) == Obj((k1 :> v1) @@ (k2 :> v2))
Raw(x) == x   \* leaves carry patterns already in internal form; Norm is idempotent on them

FactCat == { [loc |-> "A", id |-> "A0", body |-> O2("a", Num(1), "b", Str("x"))],
             [loc |-> "A", id |-> "A1", body |-> O1("a", Num(2))],
             [loc |-> "P", id |-> "P0", body |-> O2("a", Num(1), "c", Num(1))] }

\* query leaves carry patterns in the deserialised (JSON) form: arrays are sequences
RS(k, a) == [k |-> k, a |-> a, m |-> <<>>, l |-> <<>>]
RO1(k, v) == [k |-> "m", a |-> "", m |-> (k :> v), l |-> <<>>]
RO2(k1, v1, k2, v2) == [k |-> "m", a |-> "", m |-> (k1 :> v1) @@ (k2 :> v2), l |-> <<>>]
Pat(p) == [t |-> "pattern", p |-> p]
Code(k) == [t |-> "code", kind |-> k]
Leaves == { Pat(O1("a", Var("?x"))), Pat(O2("a", Var("?x"), "b", Var("?y"))), Pat(O1("c", Var("?x"))),
            Code("xeq1"), Code("obj"), Code("false"), [t |-> "empty"] }

And(s) == [t |-> "and", qs |-> s]
Or(s, sc) == [t |-> "or", qs |-> s, sc |-> sc]
Not(x) == [t |-> "not", q |-> x]

D1 == Leaves \cup {Not(x) : x \in Leaves}
      \cup {And(<<>>), Or(<<>>, FALSE)}
      \cup {And(<<x>>) : x \in Leaves}
      \cup {And(<<x, y>>) : x \in Leaves, y \in Leaves}
      \cup {Or(<<x, y>>, sc) : x \in Leaves, y \in Leaves, sc \in BOOLEAN}
D2 == D1 \cup {Not(x) : x \in D1} \cup {And(<<x, y>>) : x \in D1, y \in Leaves}
         \cup {Or(<<x, y>>, sc) : x \in D1, y \in Leaves, sc \in BOOLEAN}

\* Norm on an already-internal value: arrays are sets there, so re-normalising needs a sequence view
\* (the leaves above contain no arrays, and Norm of a scalar/map without arrays is the identity)

Init == q \in (IF Deep THEN D2 ELSE D1) /\ facts \in SUBSET FactCat
Next == UNCHANGED <<q, facts>>
Spec == Init /\ [][Next]_<<q, facts>>

In == Single(<<>>)
R(x) == Eval(x, In, facts)
SubBag(A, B) == \A x \in DOMAIN A : x \in DOMAIN B /\ A[x] <= B[x]

\* the empty query and the empty / singleton conjunction are identities
Identities == /\ R([t |-> "empty"]) = Ok(In)
              /\ R(And(<<>>)) = Ok(In)
              /\ R(And(<<q>>)) = R(q)
              /\ R(Or(<<>>, FALSE)) = Ok(EmptyBag)
\* short circuit only ever drops results
ShortCircuitDrops == LET a == R(Or(<<q, q>>, TRUE)) b == R(Or(<<q, q>>, FALSE))
                     IN a.err = b.err /\ (~a.err => SubBag(a.bag, b.bag) /\ (DOMAIN a.bag = {} <=> DOMAIN b.bag = {}))
\* not keeps exactly the incoming bindings for which the query yields nothing
NotIsFilter == LET a == R(q) n == R(Not(q))
               IN a.err = n.err /\ (~a.err => n.bag = (IF DOMAIN a.bag = {} THEN In ELSE EmptyBag))
\* and is left-to-right composition
AndComposes == LET a == R(q)
               IN \A y \in Leaves : LET c == R(And(<<q, y>>))
                                    IN IF a.err THEN c.err ELSE c = Eval(y, a.bag, facts)
\* every result extends the incoming binding with values found in facts (or by an object script)
ResultsGrounded == LET a == R(q)
                   IN ~a.err => \A b \in DOMAIN a.bag : \A v \in DOMAIN b :
                        b[v] = Num(7) \/ \E f \in facts : \E k \in DOMAIN f.body.m : f.body.m[k] = b[v]
=============================================================================
