SPECIFICATION Spec
CONSTANTS
  Class = "value"
  HasTimeout = TRUE
  Buffered = TRUE
INVARIANT Outcome
PROPERTY Returns
