SPECIFICATION Spec
CONSTANTS
  Shapes <- ShapesQuick
  Budgets <- BudgetsPos
  MaxCalls = 2
INVARIANTS BudgetRespected
VIEW View
CHECK_DEADLOCK FALSE
