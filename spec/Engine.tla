------------------------------- MODULE Engine -------------------------------
(***************************************************************************)
(* Sequential specification of rulio's location API (core.Location over    *)
(* any State and Storage; sys.System and the HTTP service render the same  *)
(* operations).                                                            *)
(*                                                                         *)
(* A location is a map id -> item.  Rules, properties (`!parents`,         *)
(* `!<id>.disabled`, `!writeKey`, `!readKey`, `!enabled`), and ordinary    *)
(* facts are all items.  Every public operation is a function              *)
(*      (state, operation) -> set of (state', response)                    *)
(* so the same definitions serve exhaustive model checking, behaviour      *)
(* generation and trace validation.  The only nondeterminism is lazy       *)
(* expiry: an expired item is invisible at once, but it (and everything    *)
(* that is deleted with it) is physically purged only when some read walks *)
(* over it; which reads do differs between state implementations.          *)
(***************************************************************************)
EXTENDS Query

CONSTANTS
  Bang,    \* [key starting with "!" |-> the rest of the key]
  Ints,    \* [number text |-> integer]        (integral numbers)
  Durs,    \* [string |-> whole seconds]       (valid Go durations)
  Times,   \* [string |-> UNIX seconds]        (valid RFC3339 times)
  BadJs,   \* set of action/condition code strings that do not compile
  Acts,    \* [action code |-> [kind, tag]]: kind "num" (value = the number tag), "ret" (returns
           \*   {tag, b: its visible bindings}), "throw" (fails)
  CondCodes, \* [condition code |-> kind of Query!CodeOn]
  OneShot, \* set of schedule strings of one-shot jobs (they start with "+" or "!")
  MaxFacts \* capacity of every location

-----------------------------------------------------------------------------
(* Items and expiry *)

Item(body, exp) == [body |-> body, exp |-> exp]
Expired(it, now) == it.exp # 0 /\ it.exp <= now
Vis(m, now) == {i \in DOMAIN m : ~Expired(m[i], now)}
ExpiredIds(m, now) == {i \in DOMAIN m : Expired(m[i], now)}

IdVal(id) == IF id \in QStr THEN Var(id) ELSE Str(id)

\* item `it` asks to be deleted with `id`
DependsOn(it, id) ==
  /\ Has(it.body, "deleteWith")
  /\ it.body.m["deleteWith"].k = "l"
  /\ IdVal(id) \in it.body.m["deleteWith"].l

RECURSIVE Deps(_, _)
Deps(m, S) ==
  LET T == S \cup {j \in DOMAIN m : \E i \in S : DependsOn(m[j], i)}
  IN IF T = S THEN S ELSE Deps(m, T)

Without(m, D) == [i \in DOMAIN m \ D |-> m[i]]
Purge(m, G) == Without(m, Deps(m, G))
PutItem(m, id, it) == [i \in DOMAIN m \cup {id} |-> IF i = id THEN it ELSE m[i]]

-----------------------------------------------------------------------------
(* Properties *)

PropId(target, prop) == "!" \o target \o "." \o prop

\* value of property `prop` of `target`, Null when absent
PropVal(m, now, target, prop) ==
  LET pid == PropId(target, prop)
  IN IF pid \in Vis(m, now) /\ Has(m[pid].body, "!" \o prop)
     THEN m[pid].body.m["!" \o prop] ELSE Null

LocEnabled(m, now) ==
  LET v == PropVal(m, now, "", "enabled")
  IN v.k # "s" \/ v.a \in {"", "yes", "true"}

KeyOf(m, now, prop) ==
  LET v == PropVal(m, now, "", prop) IN IF v.k \in {"s", "v"} THEN v.a ELSE ""

WriteOk(m, now, ro, wk) == ~ro /\ (KeyOf(m, now, "writeKey") \in {"", wk})
ReadOk(m, now, rk) == KeyOf(m, now, "readKey") \in {"", rk}

RuleDisabled(m, now, id) == PropVal(m, now, id, "disabled") = BoolV(TRUE)

BangKeys(fact) == Keys(fact) \cap DOMAIN Bang

-----------------------------------------------------------------------------
(* Preparing a fact for storage: canonical id, canonical expiry *)

\* [err, has, exp, body]
SetExpires(fact, now) ==
  LET bad == [err |-> TRUE, has |-> FALSE, exp |-> 0, body |-> fact]
      good(e, b) ==
        IF Has(b, "rule")
        THEN IF b.m["rule"].k = "m"
             THEN [err |-> FALSE, has |-> TRUE, exp |-> e,
                   body |-> Put(Put(b, "expires", Num(e)), "rule", Put(b.m["rule"], "expires", Num(e)))]
             ELSE bad
        ELSE [err |-> FALSE, has |-> TRUE, exp |-> e, body |-> Put(b, "expires", Num(e))]
  IN IF Has(fact, "ttl")
     THEN LET t == fact.m["ttl"]
              b == Del(fact, "ttl")
          IN IF t.k = "n" /\ t.a \in DOMAIN Ints /\ now + Ints[t.a] >= 0 THEN good(now + Ints[t.a], b)
             ELSE IF t.k = "s" /\ t.a \in DOMAIN Durs /\ now + Durs[t.a] >= 0 THEN good(now + Durs[t.a], b)
             ELSE bad
     ELSE IF Has(fact, "expires")
     THEN LET t == fact.m["expires"]
          IN IF t.k = "n" /\ t.a \in DOMAIN Ints /\ Ints[t.a] >= 0 THEN good(Ints[t.a], fact)
             ELSE IF t.k = "s" /\ t.a \in DOMAIN Times THEN good(Times[t.a], fact)
             ELSE bad
     ELSE [err |-> FALSE, has |-> FALSE, exp |-> 0, body |-> fact]

\* canonical id of a fact: [err, id]; gid is the id to use when the caller gave none
FactId(fact, given, gid) ==
  LET bk == BangKeys(fact)
  IN IF Cardinality(bk) > 1 THEN [err |-> TRUE, id |-> ""]
     ELSE IF Cardinality(bk) = 1
     THEN LET key == CHOOSE x \in bk : TRUE
          IN IF Has(fact, "id")
             THEN IF fact.m["id"].k \in {"s", "v"}
                  THEN [err |-> FALSE, id |-> PropId(fact.m["id"].a, Bang[key])]
                  ELSE [err |-> TRUE, id |-> ""]
             ELSE [err |-> FALSE, id |-> PropId("", Bang[key])]
     ELSE [err |-> FALSE, id |-> IF given = "" THEN gid ELSE given]

-----------------------------------------------------------------------------
(* Rules *)

IsRuleItem(it) == Has(it.body, "rule") /\ it.body.m["rule"].k = "m"
RuleBody(it) == it.body.m["rule"]
Scheduled(rb) == Has(rb, "schedule")
HasWhenPattern(rb) == Has(rb, "when") /\ Has(rb.m["when"], "pattern") /\ rb.m["when"].m["pattern"].k = "m"
WhenPattern(rb) == rb.m["when"].m["pattern"]

ActionOk(a) ==
  /\ a.k = "m"
  /\ Has(a, "code") => (a.m["code"].k \in {"s", "v"} /\ a.m["code"].a \notin BadJs)

\* The indexed state's rule index takes only arrays whose elements are all
\* strings, all numbers or all booleans; a rule whose `when` is outside that
\* fragment may be refused (nothing is stored then).
RECURSIVE Indexable(_)
Indexable(p) ==
  CASE p.k = "m" -> \A f \in DOMAIN p.m : Indexable(p.m[f])
    [] p.k = "l" -> \/ \A e \in p.l : e.k \in {"s", "v"}
                    \/ \A e \in p.l : e.k = "n"
                    \/ \A e \in p.l : e.k = "b"
                    \/ Cardinality(p.l) = 1 /\ \A e \in p.l : e.k \in {"s", "v", "n", "b", "z"}
    [] OTHER -> TRUE

\* Location.AddRule's validation (core.RuleFromMap), for the rule grammar the
\* generators use: when.pattern or schedule, action or actions, optional condition
ValidRule(rb) ==
  /\ rb.k = "m"
  /\ (Has(rb, "when") /\ ~Has(rb, "schedule") /\ HasWhenPattern(rb))
       \/ (~Has(rb, "when") /\ Has(rb, "schedule") /\ rb.m["schedule"].k = "s" /\ rb.m["schedule"].a # "")
  /\ Has(rb, "expires") => rb.m["expires"].k = "n"     \* the rule parser takes numbers only
  /\ ~(Has(rb, "action") /\ Has(rb, "actions"))
  /\ \/ Has(rb, "action") /\ ActionOk(rb.m["action"])
     \/ Has(rb, "actions") /\ rb.m["actions"].k = "l" /\ rb.m["actions"].l # {}
                           /\ \A a \in rb.m["actions"].l : ActionOk(a)

-----------------------------------------------------------------------------
(* Parents *)

\* [err, set]: the declared parents of a location
ParentsOf(m, now) ==
  LET v == PropVal(m, now, "", "parents")
  IN IF PropId("", "parents") \notin Vis(m, now) THEN [err |-> FALSE, set |-> {}]
     ELSE IF v.k = "l" /\ \A e \in v.l : e.k \in {"s", "v"}
          THEN [err |-> FALSE, set |-> {e.a : e \in v.l}]
          ELSE [err |-> TRUE, set |-> {}]

\* The multiset of locations an inherited operation visits, as a set of
\* <<path>> sequences (one per visit, so a diamond visits a location twice);
\* err when a parent is missing, ill-formed, or the chain loops back.
RECURSIVE Visits(_, _, _, _)
Visits(mem, now, l, path) ==
  IF l \notin DOMAIN mem THEN [err |-> TRUE, paths |-> {}]
  ELSE LET ps == ParentsOf(mem[l], now)
       IN IF ps.err \/ \E p \in ps.set : p = l \/ p \in {path[i] : i \in DOMAIN path}
          THEN [err |-> TRUE, paths |-> {}]
          ELSE LET sub == {Visits(mem, now, p, Append(path, l)) : p \in ps.set}
               IN [err |-> \E s \in sub : s.err,
                   paths |-> {Append(path, l)} \cup UNION {s.paths : s \in sub}]

Last(s) == s[Len(s)]

-----------------------------------------------------------------------------
(* Responses.  One record shape for every operation, so that responses are  *)
(* comparable; an operation fills the fields it has.                        *)
(*   c     class: ok | notfound | denied | disabled | capacity | expired    *)
(*                | error                                                   *)
(*   id    id returned by a write                                           *)
(*   val   fact or rule body returned by a get                              *)
(*   found search / dispatch results: set of [id, bss, body]                *)
(*   ids   set of ids (ListRules, SearchRules, GetParents)                  *)
(*   n     StateSize                                                        *)
(*   tree  ProcessEvent: per dispatched rule and when-binding, the condition *)
(*         outcome and the bag of action executions                          *)

R0 == [c |-> "ok", id |-> "", val |-> Null, found |-> {}, ids |-> {}, n |-> 0, tree |-> {}]
Resp(c) == [R0 EXCEPT !.c = c]
Out(mem, ro, r) == [mem |-> mem, ro |-> ro, resp |-> r]

SubG(G) == {g \in [DOMAIN G -> SUBSET (UNION {G[l] : l \in DOMAIN G})] :
              \A l \in DOMAIN G : g[l] \subseteq G[l]}
PurgeAll(mem, G) == [l \in DOMAIN mem |-> Purge(mem[l], G[l])]
SetLoc(mem, l, m) == [mem EXCEPT ![l] = m]

\* gates, in the order the code applies them; "ok" when all pass
Gate(seq) == IF \E i \in DOMAIN seq : seq[i] # "ok"
             THEN seq[CHOOSE i \in DOMAIN seq : seq[i] # "ok" /\ \A j \in 1..(i-1) : seq[j] = "ok"]
             ELSE "ok"
GEnabled(m, now) == IF LocEnabled(m, now) THEN "ok" ELSE "disabled"
GWrite(m, now, ro, wk) == IF WriteOk(m, now, ro, wk) THEN "ok" ELSE "denied"
GRead(m, now, rk) == IF ReadOk(m, now, rk) THEN "ok" ELSE "denied"
GCap(m) == IF MaxFacts <= Cardinality(DOMAIN m) THEN "capacity" ELSE "ok"

-----------------------------------------------------------------------------
(* state.Add and state.Rem on one location's map *)

\* [c, id, m]: PrepareFact + store
StateAdd(m, given, gid, fact, now) ==
  LET fid == FactId(fact, given, gid)
      se == SetExpires(fact, now)
  IN IF fid.err \/ se.err THEN [c |-> "error", id |-> "", m |-> m]
     ELSE IF se.has /\ Expired(Item(se.body, se.exp), now) THEN [c |-> "expired", id |-> "", m |-> m]
     ELSE [c |-> "ok", id |-> fid.id, m |-> PutItem(m, fid.id, Item(se.body, se.exp))]

\* removal of id with everything that is deleted with it
StateRem(m, id) == Without(m, Deps(m, {id}))

PropFact(target, prop, v) ==
  Obj(("id" :> IdVal(target)) @@ (("!" \o prop) :> v) @@ ("deleteWith" :> Arr({IdVal(target)})))

-----------------------------------------------------------------------------
(* Searching *)

FoundIn(m, now, pat) ==
  {[id |-> i, bss |-> Match(pat, m[i].body), body |-> m[i].body] :
      i \in {j \in Vis(m, now) : Matches(pat, m[j].body)}}

\* locations visited by an operation on l ({l} alone, or l with its ancestors)
VisitSet(mem, now, l, inh) ==
  IF inh THEN LET v == Visits(mem, now, l, <<>>) IN [err |-> v.err, locs |-> {Last(p) : p \in v.paths}, paths |-> v.paths]
  ELSE [err |-> FALSE, locs |-> {l}, paths |-> {<<l>>}]

ReadGate(m, now, rk) == Gate(<<GEnabled(m, now), GRead(m, now, rk)>>)

\* A parent chain that is ill-formed (loop, missing parent) is an error; the walk may
\* meet a location that refuses the caller before it notices, and then reports that.
LoopClasses(mr, now, rk) == {"error"} \cup ({ReadGate(mr[a], now, rk) : a \in DOMAIN mr} \ {"ok"})

\* matching, visible, unscheduled rules of one location
MatchingRules(m, now, ev) ==
  {i \in Vis(m, now) : IsRuleItem(m[i]) /\ HasWhenPattern(RuleBody(m[i]))
                         /\ Matches(WhenPattern(RuleBody(m[i])), ev)}
EventRules(m, now) ==
  {i \in Vis(m, now) : IsRuleItem(m[i]) /\ HasWhenPattern(RuleBody(m[i]))}

\* expired items an operation walks over and therefore has to purge
ExpiredMatching(m, now, pat) == {i \in ExpiredIds(m, now) : Matches(pat, m[i].body)}
ExpiredRulesMatching(m, now, ev) ==
  {i \in ExpiredIds(m, now) : IsRuleItem(m[i]) /\ HasWhenPattern(RuleBody(m[i]))
                                /\ Matches(WhenPattern(RuleBody(m[i])), ev)}

-----------------------------------------------------------------------------
(* The operations.  mr: what the operation reads (some of this call's lazy  *)
(* purges already done); mw: what it writes on (all of them done).          *)

OpAddFact(mr, mw, ro, op) ==
  LET l == op.loc  now == op.now
      g == Gate(<<GWrite(mr[l], now, ro[l], op.wk), GCap(mr[l]), GEnabled(mr[l], now)>>)
      a == StateAdd(mw[l], op.id, op.rid, op.val, now)
      \* a fact shaped like a rule ({"rule": ...}) that is no valid rule: the indexed state refuses it (it
      \* cannot index it), the linear state stores it as the fact it is; no statement prefers either, so
      \* both are allowed -- a refusal changes nothing
      lame == Has(op.val, "rule") /\ ~ValidRule(op.val.m["rule"])
  IN IF g # "ok" THEN {Out(mw, ro, Resp(g))}
     ELSE IF a.c # "ok" THEN {Out(mw, ro, Resp(a.c))}
     ELSE {Out(SetLoc(mw, l, a.m), ro, [R0 EXCEPT !.id = a.id])}
          \cup (IF lame THEN {Out(mw, ro, Resp("error"))} ELSE {})

\* removing an id that is not there: the code still removes what is declared
\* to be deleted with it; the statement of the cascade speaks of deleted items
\* only, so both outcomes are allowed
RemOutcomes(m, id) ==
  IF id \in DOMAIN m THEN {StateRem(m, id)} ELSE {StateRem(m, id), m}

\* With cron hooks installed on the state (always, through sys.System) an explicit
\* removal first looks the id up; removing an id that is not there reports not-found.
HookMiss(m, now, op, id) == op.hooked /\ id \notin Vis(m, now)

OpRemFact(mr, mw, ro, op) ==
  LET l == op.loc  now == op.now
      g == Gate(<<GEnabled(mr[l], now), GWrite(mr[l], now, ro[l], op.wk)>>)
  IN IF g # "ok" THEN {Out(mw, ro, Resp(g))}
     ELSE IF HookMiss(mr[l], now, op, op.id) THEN {Out(mw, ro, Resp("notfound"))}
     ELSE {Out(SetLoc(mw, l, m2), ro, [R0 EXCEPT !.id = op.id]) : m2 \in RemOutcomes(mw[l], op.id)}

OpGetFact(mr, mw, ro, op) ==
  LET l == op.loc  now == op.now
      g == ReadGate(mr[l], now, op.rk)
  IN IF g # "ok" THEN {Out(mw, ro, Resp(g))}
     ELSE IF op.id \in Vis(mr[l], now) THEN {Out(mw, ro, [R0 EXCEPT !.val = mr[l][op.id].body])}
     ELSE {Out(mw, ro, Resp("notfound"))}

OpSearchFacts(mr, mw, ro, op) ==
  LET l == op.loc  now == op.now
      vs == VisitSet(mr, now, l, op.inh)
      bad == {ReadGate(mr[a], now, op.rk) : a \in vs.locs} \ {"ok"}
  IN IF vs.err THEN {Out(mw, ro, Resp(c)) : c \in LoopClasses(mr, now, op.rk)}
     ELSE IF bad # {} THEN {Out(mw, ro, Resp(c)) : c \in bad}
     ELSE {Out(mw, ro, [R0 EXCEPT !.found = UNION {FoundIn(mr[a], now, op.val) : a \in vs.locs}])}

\* the fact AddRule stores for a rule body
RuleWrapper(rb, se) ==
  LET w0 == ("rule" :> se.body)
      w1 == IF se.has THEN w0 @@ ("expires" :> Num(se.exp)) ELSE w0
      w2 == IF Has(rb, "deleteWith") THEN w1 @@ ("deleteWith" :> rb.m["deleteWith"]) ELSE w1
  IN Obj(w2)

OpAddRule(mr, mw, ro, op) ==
  LET l == op.loc  now == op.now
      g == Gate(<<GEnabled(mr[l], now), GWrite(mr[l], now, ro[l], op.wk), GCap(mr[l])>>)
      se == SetExpires(op.val, now)
      a == StateAdd(mw[l], op.id, op.rid, RuleWrapper(op.val, se), now)
  IN IF g # "ok" THEN {Out(mw, ro, Resp(g))}
     ELSE IF ~ValidRule(op.val) \/ se.err THEN {Out(mw, ro, Resp("error"))}
     ELSE IF a.c # "ok" THEN {Out(mw, ro, Resp(a.c))}
     ELSE {Out(SetLoc(mw, l, a.m), ro, [R0 EXCEPT !.id = a.id])}
          \cup (IF HasWhenPattern(op.val) /\ ~Indexable(WhenPattern(op.val))
                THEN {Out(mw, ro, Resp("error"))} ELSE {})

OpRemRule(mr, mw, ro, op) ==
  LET l == op.loc  now == op.now
      g == Gate(<<GEnabled(mr[l], now), GWrite(mr[l], now, ro[l], op.wk)>>)
      flag == PropId(op.id, "disabled")
      unflag(m) == IF flag \in Vis(m, now) THEN StateRem(m, flag) ELSE m
  IN IF g # "ok" THEN {Out(mw, ro, Resp(g))}
     ELSE IF HookMiss(mr[l], now, op, op.id) THEN {Out(mw, ro, Resp("notfound"))}
     ELSE {Out(SetLoc(mw, l, unflag(m2)), ro, [R0 EXCEPT !.id = op.id]) : m2 \in RemOutcomes(mw[l], op.id)}

OpGetRule(mr, mw, ro, op) ==
  LET l == op.loc  now == op.now
      g == ReadGate(mr[l], now, op.rk)
  IN IF g # "ok" THEN {Out(mw, ro, Resp(g))}
     ELSE IF op.id \notin Vis(mr[l], now) THEN {Out(mw, ro, Resp("notfound"))}
     ELSE IF ~IsRuleItem(mr[l][op.id]) THEN {Out(mw, ro, Resp("error"))}
     ELSE {Out(mw, ro, [R0 EXCEPT !.val = RuleBody(mr[l][op.id])])}

OpEnableRule(mr, mw, ro, op) ==
  LET l == op.loc  now == op.now
      g == Gate(<<GEnabled(mr[l], now), GWrite(mr[l], now, ro[l], op.wk)>>)
      flag == PropId(op.id, "disabled")
      a == StateAdd(mw[l], "", "", PropFact(op.id, "disabled", BoolV(TRUE)), now)
  IN IF g # "ok" THEN {Out(mw, ro, Resp(g))}
     ELSE IF op.flag /\ HookMiss(mr[l], now, op, flag) THEN {Out(mw, ro, Resp("notfound"))}
     ELSE IF op.flag THEN {Out(SetLoc(mw, l, m2), ro, R0) : m2 \in RemOutcomes(mw[l], flag)}
     ELSE {Out(SetLoc(mw, l, a.m), ro, R0)}

OpSetParents(mr, mw, ro, op) ==
  LET l == op.loc  now == op.now
      g == Gate(<<GEnabled(mr[l], now), GWrite(mr[l], now, ro[l], op.wk)>>)
      a == StateAdd(mw[l], "", "", PropFact("", "parents", Arr({IdVal(p) : p \in op.names})), now)
  IN IF g # "ok" THEN {Out(mw, ro, Resp(g))}
     ELSE {Out(SetLoc(mw, l, a.m), ro, [R0 EXCEPT !.id = a.id])}

OpGetParents(mr, mw, ro, op) ==
  LET l == op.loc  now == op.now
      ps == ParentsOf(mr[l], now)
  IN IF ~LocEnabled(mr[l], now) THEN {Out(mw, ro, Resp("disabled"))}
     ELSE IF ps.err THEN {Out(mw, ro, Resp("error"))}
     ELSE {Out(mw, ro, [R0 EXCEPT !.ids = ps.set])}

OpClear(mr, mw, ro, op) ==
  LET l == op.loc  now == op.now
      g == Gate(<<GEnabled(mr[l], now), GWrite(mr[l], now, ro[l], op.wk)>>)
  IN IF g # "ok" THEN {Out(mw, ro, Resp(g))}
     ELSE {Out(SetLoc(mw, l, <<>>), ro, R0)}

OpStateSize(mr, mw, ro, op) ==
  LET l == op.loc  now == op.now
  IN IF ~ReadOk(mr[l], now, op.rk) THEN {Out(mw, ro, Resp("denied"))}
     ELSE {Out(mw, ro, [R0 EXCEPT !.n = Cardinality(DOMAIN mr[l])])}

IsListedRule(it) == Has(it.body, "rule") /\ it.body.m["rule"].k \in {"s", "v", "m"}

OpListRules(mr, mw, ro, op) ==
  LET l == op.loc  now == op.now
      g == ReadGate(mr[l], now, op.rk)
      vs == VisitSet(mr, now, l, op.inh)
      bad == {ReadGate(mr[a], now, op.rk) : a \in vs.locs} \ {"ok"}
      all == UNION {{i \in Vis(mr[a], now) : IsListedRule(mr[a][i])} : a \in vs.locs}
  IN IF g # "ok" THEN {Out(mw, ro, Resp(g))}
     ELSE IF vs.err \/ bad # {}
          THEN \* the code swallows the error and reports what it had collected
               {Out(mw, ro, [R0 EXCEPT !.ids = S]) : S \in SUBSET all}
     ELSE {Out(mw, ro, [R0 EXCEPT !.ids = all])}

\* ids of event rules that more than one visited location holds
DupIds(mr, now, paths, pick(_)) ==
  {i \in UNION {pick(mr[Last(p)]) : p \in paths} :
     Cardinality({p \in paths : i \in pick(mr[Last(p)])}) > 1}

\* SearchRules may over-approximate (the indexed state's rule index does);
\* it never misses a matching rule
OpSearchRules(mr, mw, ro, op) ==
  LET l == op.loc  now == op.now
      g == ReadGate(mr[l], now, op.rk)
      vs == VisitSet(mr, now, l, op.inh)
      bad == {ReadGate(mr[a], now, op.rk) : a \in vs.locs} \ {"ok"}
      must == UNION {MatchingRules(mr[a], now, op.val) : a \in vs.locs}
      may == UNION {EventRules(mr[a], now) : a \in vs.locs}
      dupMust == DupIds(mr, now, vs.paths, LAMBDA m : MatchingRules(m, now, op.val))
      dupMay == DupIds(mr, now, vs.paths, LAMBDA m : EventRules(m, now))
      oks == {Out(mw, ro, [R0 EXCEPT !.ids = S]) : S \in {T \in SUBSET may : must \subseteq T}}
  IN IF g # "ok" THEN {Out(mw, ro, Resp(g))}
     ELSE IF vs.err THEN {Out(mw, ro, Resp(c)) : c \in LoopClasses(mr, now, op.rk)}
     ELSE IF bad # {} THEN {Out(mw, ro, Resp(c)) : c \in bad}
     ELSE IF dupMust # {} THEN {Out(mw, ro, Resp("error"))}
     ELSE IF dupMay # {} THEN oks \cup {Out(mw, ro, Resp("error"))}
     ELSE oks

-----------------------------------------------------------------------------
(* Dispatch: what ProcessEvent evaluates and executes.                      *)

SetToSeq(S) == CHOOSE f \in [1..Cardinality(S) -> S] : \A i, j \in 1..Cardinality(S) : i # j => f[i] # f[j]

\* a rule's condition (a JSON value) as a Query tree; arrays are sets in the
\* value encoding, so the order of conjuncts/disjuncts is arbitrary here: the
\* condition grammar of the generators keeps to queries whose result bag does
\* not depend on it
RECURSIVE CondTree(_)
CondTree(v) ==
  IF v.k # "m" \/ DOMAIN v.m = {} THEN [t |-> "empty"]
  ELSE IF Has(v, "code") THEN [t |-> "code", kind |-> IF v.m["code"].a \in DOMAIN CondCodes THEN CondCodes[v.m["code"].a] ELSE "true"]
  ELSE IF Has(v, "pattern") THEN [t |-> "pattern", p |-> v.m["pattern"]]
  ELSE IF Has(v, "and") THEN [t |-> "and", qs |-> SetToSeq({CondTree(x) : x \in v.m["and"].l})]
  ELSE IF Has(v, "or") THEN [t |-> "or", qs |-> SetToSeq({CondTree(x) : x \in v.m["or"].l}),
                             sc |-> Has(v, "shortCircuit") /\ v.m["shortCircuit"] = BoolV(TRUE)]
  ELSE IF Has(v, "not") THEN [t |-> "not", q |-> CondTree(v.m["not"])]
  ELSE [t |-> "empty"]

ActionsOf(rb) == IF Has(rb, "action") THEN {rb.m["action"]}
                 ELSE IF Has(rb, "actions") /\ rb.m["actions"].k = "l" THEN rb.m["actions"].l ELSE {}
ActionCode(a) == IF Has(a, "code") THEN a.m["code"].a ELSE ""

\* facts a condition sees: the visible facts of the location and its ancestors
VisibleFacts(mr, now, locs) ==
  UNION {{[loc |-> a, id |-> i, body |-> mr[a][i].body] : i \in Vis(mr[a], now)} : a \in locs}

Builtins(b, ev, l, id) ==
  LET b1 == IF "?event" \in DOMAIN b THEN b ELSE Ext(b, "?event", ev)
      b2 == IF "?location" \in DOMAIN b1 THEN b1 ELSE Ext(b1, "?location", Str(l))
  IN IF "?ruleId" \in DOMAIN b2 THEN b2 ELSE Ext(b2, "?ruleId", Str(id))

\* one node per (rule, when-binding): the condition's outcome and, when it
\* succeeded, each action once per binding the condition produced
RuleNodes(mr, now, l, locs, ev, id, rb, bss) ==
  LET facts == VisibleFacts(mr, now, locs)
      cond == IF Has(rb, "condition") THEN CondTree(rb.m["condition"]) ELSE [t |-> "empty"]
      node(wb) ==
        LET b0 == Builtins(wb, ev, l, id)
            r == EvalTop(cond, Single(b0), facts)
            codes == {ActionCode(a) : a \in ActionsOf(rb)}
        IN [id |-> id, wb |-> b0, c |-> IF r.err THEN "err" ELSE "ok",
            execs |-> IF r.err THEN EmptyBag
                      ELSE [x \in {[b |-> b, code |-> cd] : b \in DOMAIN r.bag, cd \in codes} |-> r.bag[x.b]]]
  IN {node(wb) : wb \in bss}

\* value an action execution returns (Null when it fails)
ExecValue(code, b) ==
  IF code \notin DOMAIN Acts THEN Null
  ELSE CASE Acts[code].kind = "num" -> NumA(Acts[code].tag)
         [] Acts[code].kind = "ret" -> Obj(("tag" :> Str(Acts[code].tag)) @@ ("b" :> Obj(b)))
         [] Acts[code].kind = "addfact" -> Str(Acts[code].tag)
         [] OTHER -> Null
\* an execution fails when its script throws, or when it writes (Env.AddFact, with the
\* caller's keys) and the location refuses the write
ExecFails(code, writable) ==
  code \in DOMAIN Acts /\ (Acts[code].kind = "throw" \/ (Acts[code].kind = "addfact" /\ ~writable))
\* the fact an "addfact" action writes: id = its tag
MadeFact(code) == Obj("made" :> Str(Acts[code].tag))

\* What follows rule finding: conditions, actions (those that write do so in the event's location with
\* the caller's keys), and the removal of a one-shot scheduled rule once it has been evaluated.
FinishEvent(mr, mw, ro, op, hits, locs) ==
  LET l == op.loc  now == op.now
      tree == UNION {RuleNodes(mr, now, l, locs, op.val, h.id, h.body, h.bss) : h \in hits}
      writable == Gate(<<GWrite(mr[l], now, ro[l], op.wk), GCap(mr[l]), GEnabled(mr[l], now)>>) = "ok"
      made == {x.code : x \in UNION {DOMAIN nd.execs : nd \in tree}}
                 \cap {c \in DOMAIN Acts : Acts[c].kind = "addfact"}
      RECURSIVE AddAll(_, _)
      AddAll(m, S) == IF S = {} THEN m
                      ELSE LET c == CHOOSE x \in S : TRUE
                           IN AddAll(PutItem(m, Acts[c].tag, Item(MadeFact(c), 0)), S \ {c})
      mw2 == IF writable THEN SetLoc(mw, l, AddAll(mw[l], made)) ELSE mw
      \* RuleDone: a one-shot scheduled rule is removed after its evaluation (by RemRule, with the caller's keys)
      once == {h.id : h \in {x \in hits : Has(x.body, "schedule") /\ x.body.m["schedule"].a \in OneShot}}
      canRem == Gate(<<GEnabled(mr[l], now), GWrite(mr[l], now, ro[l], op.wk)>>) = "ok"
      RECURSIVE RemAll(_, _)
      RemAll(m, S) == IF S = {} THEN m
                      ELSE LET i == CHOOSE x \in S : TRUE
                               m1 == StateRem(m, i)
                               flag == PropId(i, "disabled")
                           IN RemAll(IF flag \in DOMAIN m1 THEN StateRem(m1, flag) ELSE m1, S \ {i})
      mw3 == IF canRem /\ once # {} THEN SetLoc(mw2, l, RemAll(mw2[l], once)) ELSE mw2
  IN Out(mw3, ro, [R0 EXCEPT !.found = hits, !.tree = tree, !.n = IF writable THEN 1 ELSE 0])

\* ProcessEvent: rule finding (FindRules), then conditions and actions.
OpProcessEvent(mr, mw, ro, op) ==
  LET l == op.loc  now == op.now
      vs == VisitSet(mr, now, l, TRUE)
      bad == {ReadGate(mr[a], now, op.rk) : a \in vs.locs} \ {"ok"}
      dupMust == DupIds(mr, now, vs.paths, LAMBDA m : MatchingRules(m, now, op.val))
      dupMay == DupIds(mr, now, vs.paths, LAMBDA m : EventRules(m, now))
      hits == UNION {{[id |-> i, bss |-> Match(WhenPattern(RuleBody(mr[a][i])), op.val), body |-> RuleBody(mr[a][i])] :
                         i \in {j \in MatchingRules(mr[a], now, op.val) : ~RuleDisabled(mr[l], now, j)}} :
                     a \in vs.locs}
      ok == FinishEvent(mr, mw, ro, op, hits, vs.locs)
      \* {"trigger!": id}: what a cron tick delivers; evaluates rule id of this very location
      tv == op.val.m["trigger!"]
      tid == tv.a
      trb == RuleBody(mr[l][tid])
      tbss == IF RuleDisabled(mr[l], now, tid) THEN {}
              ELSE IF HasWhenPattern(trb) THEN Match(WhenPattern(trb), op.val) ELSE {<<>>}
      thits == IF tbss = {} THEN {} ELSE {[id |-> tid, bss |-> tbss, body |-> trb]}
  IN IF Has(op.val, "trigger!")
     THEN IF tv.k \notin {"s", "v"} \/ ReadGate(mr[l], now, op.rk) # "ok" THEN {Out(mw, ro, Resp("error"))}
          ELSE IF tid \notin Vis(mr[l], now) \/ ~IsRuleItem(mr[l][tid]) THEN {Out(mw, ro, Resp("error"))}
          ELSE IF vs.err \/ bad # {} THEN {Out(mw, ro, Resp("error")), FinishEvent(mr, mw, ro, op, thits, {l})}
          ELSE {FinishEvent(mr, mw, ro, op, thits, vs.locs)}
     ELSE IF vs.err THEN {Out(mw, ro, Resp("error"))}
     ELSE IF bad # {} THEN {Out(mw, ro, Resp("error"))}
     ELSE IF dupMust # {} THEN {Out(mw, ro, Resp("error"))}
     ELSE IF dupMay # {} THEN {ok, Out(mw, ro, Resp("error"))}
     ELSE {ok}

\* an ill-formed service request: an error response, nothing changes
OpBadRequest(mr, mw, ro, op) == {Out(mw, ro, Resp("error"))}

OpSetReadOnly(mr, mw, ro, op) == {Out(mw, [ro EXCEPT ![op.loc] = op.flag], R0)}

\* a new Location object over the same storage: the write-through store holds
\* exactly what the live location held
OpReload(mr, mw, ro, op) == {Out(mw, [ro EXCEPT ![op.loc] = FALSE], R0)}

StepR(mr, mw, ro, op) ==
  CASE op.op = "AddFact"      -> OpAddFact(mr, mw, ro, op)
    [] op.op = "RemFact"      -> OpRemFact(mr, mw, ro, op)
    [] op.op = "GetFact"      -> OpGetFact(mr, mw, ro, op)
    [] op.op = "SearchFacts"  -> OpSearchFacts(mr, mw, ro, op)
    [] op.op = "AddRule"      -> OpAddRule(mr, mw, ro, op)
    [] op.op = "RemRule"      -> OpRemRule(mr, mw, ro, op)
    [] op.op = "GetRule"      -> OpGetRule(mr, mw, ro, op)
    [] op.op = "EnableRule"   -> OpEnableRule(mr, mw, ro, op)
    [] op.op = "SetParents"   -> OpSetParents(mr, mw, ro, op)
    [] op.op = "GetParents"   -> OpGetParents(mr, mw, ro, op)
    [] op.op = "Clear"        -> OpClear(mr, mw, ro, op)
    [] op.op = "StateSize"    -> OpStateSize(mr, mw, ro, op)
    [] op.op = "ListRules"    -> OpListRules(mr, mw, ro, op)
    [] op.op = "SearchRules"  -> OpSearchRules(mr, mw, ro, op)
    [] op.op = "ProcessEvent" -> OpProcessEvent(mr, mw, ro, op)
    [] op.op = "SetReadOnly"  -> OpSetReadOnly(mr, mw, ro, op)
    [] op.op = "BadRequest"   -> OpBadRequest(mr, mw, ro, op)
    [] op.op = "Reload"       -> OpReload(mr, mw, ro, op)

\* All outcomes of op when the lazy purges G (location -> expired ids) happen
\* during it.
\* A search purges what it finds expired while it walks the facts, and a purge takes the dependents of
\* the expired item along.  A dependent the walk has passed before it meets the expired item is in the
\* answer, one it would have passed later is not: the answer lies between what the fully purged
\* location holds and what the location held before any purge (expired items invisible in both).
SearchLimbo(mem, ro, op, G) ==
  LET none == [a \in DOMAIN G |-> {}]
      lo == {o \in StepR(PurgeAll(mem, G), PurgeAll(mem, G), ro, op) : o.resp.c = "ok"}
      hi == {o \in StepR(PurgeAll(mem, none), PurgeAll(mem, G), ro, op) : o.resp.c = "ok"}
  IN UNION {{[o EXCEPT !.resp.found = o.resp.found \cup X] : X \in SUBSET (h.resp.found \ o.resp.found)} : o \in lo, h \in hi}

Step(mem, ro, op, G) ==
  UNION {StepR(PurgeAll(mem, G1), PurgeAll(mem, G), ro, op) : G1 \in SubG(G)}
  \cup (IF op.op = "SearchFacts" /\ \E a \in DOMAIN G : G[a] # {} THEN SearchLimbo(mem, ro, op, G) ELSE {})

-----------------------------------------------------------------------------
(* Named deviations: what the code is known to do where it breaks a        *)
(* property and the defect is recorded rather than repaired                *)
(* (known_findings.json).  They are never part of Step; trace validation   *)
(* uses one only when no strict outcome explains a line, and reports it.   *)

DevOut(mem, ro, r, d) == [mem |-> mem, ro |-> ro, resp |-> r, dev |-> d]

DevStep(mem, ro, op, G, impl) ==
  \* D_UNSORTABLE_EVENT (C01): the indexed state's rule index refuses an event
  \* that holds an array of mixed or non-scalar elements, so no rule is found
  (IF impl = "indexed" /\ op.op \in {"ProcessEvent", "SearchRules"} /\ ~Indexable(op.val)
   THEN {DevOut(PurgeAll(mem, G), ro, Resp("error"), "D_UNSORTABLE_EVENT")} ELSE {})

\* Expired items the operation certainly walks over: they have to be gone
\* afterwards (location -> ids).
MustPurge(mem, op) ==
  LET l == op.loc  now == op.now
      none == [a \in DOMAIN mem |-> {}]
      vs(inh) == VisitSet(mem, now, l, inh)
  IN CASE op.op \in {"GetFact", "GetRule"} ->
            [none EXCEPT ![l] = {op.id} \cap ExpiredIds(mem[l], now)]
       [] op.op = "SearchFacts" ->
            IF vs(op.inh).err THEN none
            ELSE [a \in DOMAIN mem |-> IF a \in vs(op.inh).locs THEN ExpiredMatching(mem[a], now, op.val) ELSE {}]
       [] op.op = "ProcessEvent" ->
            IF vs(TRUE).err THEN none
            ELSE [a \in DOMAIN mem |-> IF a \in vs(TRUE).locs THEN ExpiredRulesMatching(mem[a], now, op.val) ELSE {}]
       [] OTHER -> none
=============================================================================
