SPECIFICATION Spec
CONSTANTS
  Family = "expiry"
  Locs = {"A"}
  Ids = {"f1", "f2"}
  MaxNow = 3
  MaxOps = 4
  T0 = 1000
  MaxFacts = 3
  Bang <- McBang
  Ints <- McInts
  Durs <- McDurs
  Times <- McTimes
  QStr <- McQStr
  BadJs <- McBadJs
  Acts <- McActs
  CondCodes <- McCondCodes
  OneShot <- McOneShot
VIEW View
INVARIANTS NeverSeenAfter RefusalHarmless CascadeExact
CHECK_DEADLOCK FALSE
