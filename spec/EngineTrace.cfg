SPECIFICATION Spec
CONSTANTS
  Bang <- HdrBang
  Ints <- HdrInts
  Durs <- HdrDurs
  Times <- HdrTimes
  QStr <- HdrQStr
  BadJs <- HdrBadJs
  Acts <- HdrActs
  CondCodes <- HdrCondCodes
  OneShot <- HdrOneShot
  MaxFacts <- HdrMax
CONSTRAINT Mark
POSTCONDITION Accepted
CHECK_DEADLOCK FALSE
