------------------------------- MODULE CroltTrace -------------------------------
(***************************************************************************)
(* Recorded histories of the real Bolt-backed cron service (the in-package *)
(* driver harness/overlay/crolt_verif_test.go.txt) checked against Crolt.  *)
(* After every operation the driver reads every bucket through the         *)
(* service's own Scan; the line carries the operation, its result, a time  *)
(* bracket, the requests the jobs made meanwhile (fires) and that complete *)
(* content.  Each line must be a transition Crolt allows from the content  *)
(* of the line before, and the content must satisfy Agree.                 *)
(*                                                                         *)
(* Times are microseconds of one clock.  A recurring job's due time is its *)
(* next occurrence (a whole second) plus a jitter in [0, MaxJitter).       *)
(***************************************************************************)
EXTENDS Crolt, Sequences, Json, IOUtils, TLC

Trace == ndJsonDeserialize(IOEnv.TRACE)

VARIABLES l, S, cfg
tvars == <<l, S, cfg>>

Second == 1000000
FloorSec(t) == t - ((t + cfg.off) % Second)

Rng(s) == {s[i] : i \in DOMAIN s}
Val(e) == [aid |-> e.aid, tid |-> e.tid, at |-> e.at, once |-> e.once, evict |-> e.evict, cron |-> e.cron,
           b |-> e.b, v |-> e.v, acct |-> e.acct]
\* the logged content as a store; ok says whether it is a store at all (keys unique, values readable, filed under their own keys)
Logged(e) ==
  [jobs |-> [k \in {x.k : x \in Rng(e.jobs)} |-> Val(CHOOSE x \in Rng(e.jobs) : x.k = k)],
   time |-> [k \in {x.k : x \in Rng(e.time)} |-> Val(CHOOSE x \in Rng(e.time) : x.k = k)]]
WellFormed(e) ==
  /\ \A i, k \in DOMAIN e.jobs : e.jobs[i].k = e.jobs[k].k => i = k
  /\ \A i, k \in DOMAIN e.time : e.time[i].k = e.time[k].k => i = k
  /\ \A x \in Rng(e.jobs) \cup Rng(e.time) : ~x.bad /\ x.at >= 0
  /\ \A x \in Rng(e.jobs) : x.k = x.aid
  /\ \A x \in Rng(e.time) : x.k = x.tid
\* one partition per account, the same for both kinds of bucket
Partitioned(P) == \A x, y \in Rng(P.jobs) \cup Rng(P.time) : x.acct = y.acct => x.b = y.b
  \* (Rng of a function with string domain)
RngF(f) == {f[k] : k \in DOMAIN f}
PartitionedF(P) == \A x, y \in RngF(P.jobs) \cup RngF(P.time) : x.acct = y.acct => x.b = y.b

Fires(e, a) == Cardinality({i \in DOMAIN e.fires : e.fires[i].aid = a})
FireT(e, a) == (CHOOSE f \in Rng(e.fires) : f.aid = a).t

\* the due time of a recurring job set at some instant of [t0, t1]
RecurringAt(at, t0, t1) ==
  LET o == FloorSec(at) IN o > t0 /\ o <= t1 + Second /\ at - o <= cfg.jitter /\ (cfg.jitter = 0 => at = o)

AddOk(e, P) ==
  /\ e.aid \notin DOMAIN S.jobs /\ e.aid \in DOMAIN P.jobs
  /\ LET j == P.jobs[e.aid] IN
       /\ ~j.evict
       /\ IF e.d >= 0 THEN j.once /\ e.t0 + e.d <= j.at /\ j.at <= e.t1 + e.d
          ELSE ~j.once /\ RecurringAt(j.at, e.t0, e.t1)
       /\ P.jobs = DoUpdate(S, j, FALSE, "").jobs /\ P.time = DoUpdate(S, j, FALSE, "").time

Same(P) == P.jobs = S.jobs /\ P.time = S.time

DelAcct(e) == [jobs |-> [a \in {x \in DOMAIN S.jobs : S.jobs[x].acct # e.acct} |-> S.jobs[a]],
               time |-> [t \in {x \in DOMAIN S.time : S.time[x].acct # e.acct} |-> S.time[t]]]

\* one pass of the work loop over partition e.part
Due(j, e) == j.at <= e.t1
WorkOk(e, P) ==
  LET A == {a \in DOMAIN S.jobs : S.jobs[a].b = e.part} IN
  /\ e.res = "ok"
  /\ DOMAIN P.jobs \subseteq DOMAIN S.jobs
  /\ \A a \in DOMAIN S.jobs \ A : a \in DOMAIN P.jobs /\ P.jobs[a] = S.jobs[a]
  /\ \A f \in Rng(e.fires) : f.aid \in A
  /\ \A a \in A : LET j == S.jobs[a] IN
       \/ a \in DOMAIN P.jobs /\ P.jobs[a] = j /\ Fires(e, a) = 0                       \* not touched
       \/ Due(j, e) /\ j.evict /\ a \notin DOMAIN P.jobs /\ Fires(e, a) = 0             \* evicted
       \/ /\ Due(j, e) /\ ~j.evict /\ a \in DOMAIN P.jobs                               \* fired, once, not early
          /\ Fires(e, a) = 1 /\ FireT(e, a) >= j.at
          /\ LET k == P.jobs[a] IN
               /\ k.once = j.once /\ k.cron = j.cron /\ k.b = j.b
               /\ IF j.once THEN k.evict /\ e.t0 + cfg.ttl <= k.at /\ k.at <= e.t1 + cfg.ttl
                  ELSE ~k.evict /\ RecurringAt(k.at, e.t0, e.t1) /\ FloorSec(k.at) > FloorSec(j.at)
  \* progress: something long due does not wait behind nothing
  /\ (\E a \in A : S.jobs[a].at + Second < e.t0) => \E a \in A : a \notin DOMAIN P.jobs \/ P.jobs[a] # S.jobs[a]

Guard(e, P) ==
  /\ WellFormed(e) /\ Agree(P) /\ PartitionedF(P)
  /\ CASE e.op = "add" -> /\ e.fires = <<>>
                          /\ IF e.res = "ok" THEN AddOk(e, P)
                             ELSE e.res = "exists" /\ e.aid \in DOMAIN S.jobs /\ Same(P)
       [] e.op = "delete" -> e.fires = <<>> /\ e.res = "ok" /\ P.jobs = DoDelete(S, e.aid).jobs /\ P.time = DoDelete(S, e.aid).time
       [] e.op = "delacct" -> e.fires = <<>> /\ e.res = "ok" /\ P.jobs = DelAcct(e).jobs /\ P.time = DelAcct(e).time
       [] e.op = "get" -> /\ e.fires = <<>> /\ Same(P)
                          /\ IF e.aid \in DOMAIN S.jobs THEN e.res = "ok" /\ e.tid = S.jobs[e.aid].tid ELSE e.res = "notfound"
       [] e.op = "reopen" -> e.fires = <<>> /\ Same(P)
       [] e.op = "work" -> WorkOk(e, P)
       [] e.op = "conc" -> TRUE        \* a round of concurrent calls: only the content is judged
       [] OTHER -> FALSE

NextReset(i) ==
  IF \E j \in (i+1)..Len(Trace) : Trace[j].ev = "reset"
  THEN CHOOSE j \in (i+1)..Len(Trace) : Trace[j].ev = "reset" /\ \A k \in (i+1)..(j-1) : Trace[k].ev # "reset"
  ELSE Len(Trace) + 1

Empty == [jobs |-> <<>>, time |-> <<>>]
Init == l = 1 /\ S = Empty /\ cfg = [off |-> 0, ttl |-> 0, jitter |-> 0]

Next ==
  /\ l <= Len(Trace)
  /\ LET e == Trace[l] IN
       IF e.ev = "reset" THEN S' = Empty /\ cfg' = [off |-> e.off, ttl |-> e.ttl, jitter |-> e.jitter] /\ l' = l + 1
       ELSE IF Guard(e, Logged(e)) THEN S' = Logged(e) /\ l' = l + 1 /\ UNCHANGED cfg
       ELSE /\ PrintT(<<"REJECT", l, [op |-> e.op, res |-> e.res, t0 |-> e.t0, t1 |-> e.t1, fires |-> e.fires], "before", S, "after", Logged(e)>>)
            /\ TLCSet(2, TLCGet(2) \cup {l})
            /\ l' = NextReset(l)
            /\ UNCHANGED <<S, cfg>>

Spec == Init /\ [][Next]_tvars

ASSUME TLCSet(1, 0) /\ TLCSet(2, {}) /\ TLCSet(3, {})
Mark == TLCSet(1, IF TLCGet(1) < l THEN l ELSE TLCGet(1))
Accepted ==
  /\ PrintT(<<"CONSUMED", TLCGet(1) - 1, "OF", Len(Trace), "REJECTED", TLCGet(2), "DEVIATIONS", TLCGet(3)>>)
  /\ TLCGet(1) = Len(Trace) + 1
  /\ TLCGet(2) = {}
=============================================================================
