-------------------------------- MODULE Match --------------------------------
(***************************************************************************)
(* Partial (subset) matching as the manual defines it: a binding b matches *)
(* pattern p against data d iff p, with its variables replaced by b, can   *)
(* be laid over d: maps may have extra keys, arrays are sets that may have *)
(* extra elements (each pattern element lands on a distinct data element), *)
(* a variable that occurs more than once finds equal values.               *)
(*                                                                         *)
(* MatchB(p, d, b) is the set of extensions of b; it is written as a       *)
(* fold, but its value does not depend on the order of the fold.           *)
(* A map pattern whose only key is a variable ("property variable")        *)
(* ranges over the keys of the data map.                                   *)
(***************************************************************************)
EXTENDS JsonVal

CONSTANT QStr   \* the strings that start with "?" (TLC cannot look inside a string)

QKeys(p) == DOMAIN p.m \cap QStr

Ext(b, v, d) == [x \in DOMAIN b \cup {v} |-> IF x = v THEN d ELSE b[x]]

RECURSIVE MatchB(_, _, _), MatchMap(_, _, _, _), MatchArr(_, _, _)

MatchB(p, d, b) ==
  CASE p.k = "v" -> IF p.a = "?" THEN {b}                          \* anonymous variable
                    ELSE IF p.a \in DOMAIN b
                         THEN (IF b[p.a] = d THEN {b} ELSE {})
                         ELSE {Ext(b, p.a, d)}
    [] p.k = "m" -> IF d.k # "m" THEN {}
                    ELSE IF DOMAIN p.m = {} THEN {b}
                    ELSE IF QKeys(p) # {}
                         THEN \* single property variable
                              UNION { UNION { MatchB(p.m[key], d.m[dk], b1) :
                                              b1 \in MatchB(Var(key), Str(dk), b) } :
                                      key \in QKeys(p), dk \in DOMAIN d.m }
                    ELSE IF ~(DOMAIN p.m \subseteq DOMAIN d.m) THEN {}
                    ELSE MatchMap(DOMAIN p.m, p, d, {b})
    [] p.k = "l" -> IF d.k # "l" THEN {} ELSE MatchArr(p.l, d.l, {b})
    [] OTHER     -> IF p = d THEN {b} ELSE {}

MatchMap(ks, p, d, bs) ==
  IF ks = {} \/ bs = {} THEN bs
  ELSE LET key == CHOOSE x \in ks : TRUE
       IN MatchMap(ks \ {key}, p, d, UNION {MatchB(p.m[key], d.m[key], b) : b \in bs})

MatchArr(ps, ds, bs) ==
  IF ps = {} \/ bs = {} THEN bs
  ELSE LET pe == CHOOSE x \in ps : TRUE
       IN UNION { MatchArr(ps \ {pe}, ds \ {de}, UNION {MatchB(pe, de, b) : b \in bs}) : de \in ds }

-----------------------------------------------------------------------------
(* Named deviation D_REBIND_PARTIAL (known finding, C05).  The matcher rulio *)
(* delegates to (Comcast/sheens) checks a second occurrence of a variable    *)
(* by matching the value bound so far, AS A PATTERN, against the data, i.e.  *)
(* partially; which occurrence is met first depends on Go map iteration.     *)
(* DevMatchB gives every binding some visiting order can produce.            *)

RECURSIVE DevMatchB(_, _, _), DevMatchMap(_, _, _, _), DevMatchArr(_, _, _)

DevMatchB(p, d, b) ==
  CASE p.k = "v" -> IF p.a = "?" THEN {b}
                    ELSE IF p.a \in DOMAIN b
                         THEN (IF VarsOf(b[p.a]) = {} /\ MatchB(b[p.a], d, <<>>) # {} THEN {b} ELSE {})
                         ELSE {Ext(b, p.a, d)}
    [] p.k = "m" -> IF d.k # "m" THEN {}
                    ELSE IF DOMAIN p.m = {} THEN {b}
                    ELSE IF QKeys(p) # {} THEN MatchB(p, d, b)
                    ELSE IF ~(DOMAIN p.m \subseteq DOMAIN d.m) THEN {}
                    ELSE DevMatchMap(DOMAIN p.m, p, d, {b})
    [] p.k = "l" -> IF d.k # "l" THEN {} ELSE DevMatchArr(p.l, d.l, {b})
    [] OTHER     -> IF p = d THEN {b} ELSE {}

\* every order of visiting the keys
DevMatchMap(ks, p, d, bs) ==
  IF ks = {} \/ bs = {} THEN bs
  ELSE UNION { DevMatchMap(ks \ {key}, p, d, UNION {DevMatchB(p.m[key], d.m[key], b) : b \in bs}) : key \in ks }

DevMatchArr(ps, ds, bs) ==
  IF ps = {} \/ bs = {} THEN bs
  ELSE UNION { UNION { DevMatchArr(ps \ {pe}, ds \ {de}, UNION {DevMatchB(pe, de, b) : b \in bs}) : de \in ds } : pe \in ps }

Match(p, d) == MatchB(p, d, <<>>)
Matches(p, d) == Match(p, d) # {}
=============================================================================
