------------------------------- MODULE WorkWalkMC -------------------------------
(* Exhaustive exploration of WorkWalk.tla: a few rule shapes, every failure environment, every
   budget in Budgets, calls on fresh and on walked trees, one visit per step. *)
EXTENDS WorkWalk

CONSTANTS Shapes, Budgets, MaxCalls

VARIABLES s, e, pre, steps, fresh, calls
vars == <<s, e, pre, steps, fresh, calls>>

Envs(sh) == {[rules |-> sh.rules, live |-> lv, nw |-> sh.nw, nc |-> sh.nc, na |-> sh.na, serial |-> sh.serial,
              condFail |-> cf, actFail |-> af]
             : lv \in (SUBSET sh.rules) \ {{}}, cf \in SUBSET sh.rules,
               af \in SUBSET {<<r, a>> \in sh.rules \X (1..2) : a <= sh.na[r]}}

Init == /\ \E sh \in Shapes : e \in Envs(sh)
        /\ s = Blank(e) /\ pre = Blank(e) /\ steps = 0 /\ fresh = TRUE /\ calls = 0

\* ProcessEvent: PrepareWork + WorkWalk(0)
Process == /\ s.pc.k \in {"idle", "ret"} /\ calls < MaxCalls
           /\ s' = Call(Blank(e), 0) /\ pre' = Blank(e) /\ steps' = 0 /\ fresh' = TRUE /\ calls' = calls + 1
           /\ UNCHANGED e
\* RetryEventWork (budget 0) or WorkWalk with another budget on the tree as it is
Again(b) == /\ s.pc.k = "ret" /\ calls < MaxCalls
            /\ s' = Call(s, b) /\ pre' = s /\ steps' = b /\ fresh' = FALSE /\ calls' = calls + 1
            /\ UNCHANGED e
\* the environment changes between calls: what fails, which rules are enabled
EnvChange == /\ s.pc.k = "ret"
             /\ \E e2 \in Envs(e) : e' = e2
             /\ UNCHANGED <<s, pre, steps, fresh, calls>>
Visit == /\ s.pc.k \notin {"idle", "ret"}
         /\ s' \in Succ(s, e)
         /\ UNCHANGED <<e, pre, steps, fresh, calls>>
Next == Process \/ (\E b \in Budgets : Again(b)) \/ EnvChange \/ Visit
Spec == Init /\ [][Next]_vars

-----------------------------------------------------------------------------
Returned == s.pc.k = "ret"
Nodes == {<<r, j, p>> \in e.rules \X (1..2) \X (1..4) :
            j <= Len(s.er[r].kids) /\ p <= Len(s.er[r].kids[j].acts)}
NodeTag(n) == Tag(n[1], s.er[n[1]].kids[n[2]].w, n[3])
NodeD(n) == s.er[n[1]].kids[n[2]].acts[n[3]]

\* C04, on the tree of a processed event: every action node that the tree shows as complete or
\* failed was executed exactly once, the others never; Values holds exactly the complete ones.
ExactlyOnce ==
  (Returned /\ fresh) =>
    /\ \A n \in Nodes : Count(s.execs, NodeTag(n)) = (IF NodeD(n) \in {"ok", "err"} THEN 1 ELSE 0)
    /\ \A n \in Nodes : Count(s.values, NodeTag(n)) = (IF NodeD(n) = "ok" THEN 1 ELSE 0)
    /\ Len(s.execs) = Cardinality({n \in Nodes : NodeD(n) # "none"})
    /\ Len(s.values) = Cardinality({n \in Nodes : NodeD(n) = "ok"})
\* no call executes a node twice, whatever the budget and the history of the tree
AtMostOncePerCall == \A i \in 1..Len(s.execs) : Count(s.execs, s.execs[i]) = 1
\* a failing action of a rule without serialActions prevents nothing: all its siblings ran
ConcurrentSiblingsRun ==
  (Returned /\ fresh) =>
    \A r \in e.rules : ~e.serial[r] =>
      \A j \in 1..Len(s.er[r].kids) : s.er[r].kids[j].d = "ok" =>
        \A p \in 1..Len(s.er[r].kids[j].acts) : s.er[r].kids[j].acts[p] # "none"
\* serial rules stop at the first failure: ok* (err none*)?
SerialPrefix ==
  (Returned /\ fresh) =>
    \A r \in e.rules : e.serial[r] =>
      \A j \in 1..Len(s.er[r].kids) :
        LET a == s.er[r].kids[j].acts IN
        \A p, q \in 1..Len(a) : (p < q /\ a[p] # "ok") => a[q] = "none"
\* the walk reports a failure exactly when a condition failed or a serial action failed
ReturnTellsFailure ==
  Returned =>
    (s.pc.d = "err" <=>
       \E r \in e.rules : \E j \in 1..Len(s.er[r].kids) :
          \/ s.er[r].kids[j].d = "err"
          \/ e.serial[r] /\ \E p \in 1..Len(s.er[r].kids[j].acts) : s.er[r].kids[j].acts[p] = "err" /\ s.er[r].kids[j].d = "ok")
\* budgets below -1: a complete node is never executed again (resume)
ResumeKeepsComplete ==
  (steps < -1 /\ ~fresh) =>
    \A i \in 1..Len(s.execs) :
      LET t == s.execs[i] IN
      \A j \in 1..Len(pre.er[t.r].kids) :
        (pre.er[t.r].kids[j].w = t.w /\ pre.er[t.r].d = "ok" /\ pre.frD = "ok" /\ pre.er[t.r].kids[j].d = "ok" /\ t.p <= Len(pre.er[t.r].kids[j].acts))
          => pre.er[t.r].kids[j].acts[t.p] # "ok"
\* what a reader of Counter expects and the code does not do (CounterWraps): with a budget n > 0
\* on a tree whose every node is complete, at most n nodes are executed again.
AllComplete(t) == /\ t.frD = "ok"
                  /\ \A r \in DOMAIN t.er : t.er[r].d = "ok" /\ t.done[r] = "ok"
                        /\ \A j \in 1..Len(t.er[r].kids) : t.er[r].kids[j].d = "ok"
                              /\ \A p \in 1..Len(t.er[r].kids[j].acts) : t.er[r].kids[j].acts[p] = "ok"
BudgetRespected ==
  (Returned /\ ~fresh /\ steps > 0 /\ AllComplete(pre) /\ Len(pre.order) = Cardinality(e.rules)) =>
     Len(s.cexecs) + Len(s.execs) <= steps
\* values only grow, and by exactly the executions that completed in this call
ValuesGrow ==
  Returned => /\ Len(s.values) >= Len(pre.values)
              /\ Len(s.values) - Len(pre.values) <= Len(s.execs)
ShapesSmall ==
  { [rules |-> {"r1"}, nw |-> [r \in {"r1"} |-> 2], nc |-> [r \in {"r1"} |-> 2], na |-> [r \in {"r1"} |-> 2], serial |-> [r \in {"r1"} |-> TRUE]],
    [rules |-> {"r1"}, nw |-> [r \in {"r1"} |-> 1], nc |-> [r \in {"r1"} |-> 2], na |-> [r \in {"r1"} |-> 2], serial |-> [r \in {"r1"} |-> FALSE]],
    [rules |-> {"r1", "r2"}, nw |-> [r \in {"r1", "r2"} |-> IF r = "r1" THEN 2 ELSE 1], nc |-> [r \in {"r1", "r2"} |-> IF r = "r1" THEN 1 ELSE 0],
     na |-> [r \in {"r1", "r2"} |-> IF r = "r1" THEN 2 ELSE 1], serial |-> [r \in {"r1", "r2"} |-> r = "r1"]],
    [rules |-> {"r1", "r2"}, nw |-> [r \in {"r1", "r2"} |-> 1], nc |-> [r \in {"r1", "r2"} |-> IF r = "r1" THEN 1 ELSE 2],
     na |-> [r \in {"r1", "r2"} |-> IF r = "r1" THEN 1 ELSE 2], serial |-> [r \in {"r1", "r2"} |-> r = "r2"]] }
ShapesQuick ==
  { [rules |-> {"r1"}, nw |-> [r \in {"r1"} |-> 2], nc |-> [r \in {"r1"} |-> 1], na |-> [r \in {"r1"} |-> 2], serial |-> [r \in {"r1"} |-> TRUE]],
    [rules |-> {"r1"}, nw |-> [r \in {"r1"} |-> 1], nc |-> [r \in {"r1"} |-> 2], na |-> [r \in {"r1"} |-> 2], serial |-> [r \in {"r1"} |-> FALSE]],
    [rules |-> {"r1", "r2"}, nw |-> [r \in {"r1", "r2"} |-> 1], nc |-> [r \in {"r1", "r2"} |-> 1],
     na |-> [r \in {"r1", "r2"} |-> IF r = "r1" THEN 2 ELSE 1], serial |-> [r \in {"r1", "r2"} |-> r = "r1"]] }
BudgetsAll == {0, -2, 1, 2}
BudgetsQuick == {0, -2, 1}
BudgetsPos == {1}
View == <<s, e, steps, fresh, calls, pre.values, IF steps < -1 \/ steps > 0 THEN pre ELSE <<>>>>
=============================================================================
