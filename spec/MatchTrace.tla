----------------------------- MODULE MatchTrace -----------------------------
(***************************************************************************)
(* Validation of recorded calls of the real matcher against Match.tla.     *)
(* Each line: pattern p, data d, initial bindings b0, the binding sets     *)
(* returned, whether an error was returned, whether an input was modified. *)
(* A line is accepted iff no error, no modification, and the returned set  *)
(* of bindings is exactly MatchB(p, d, b0).                                *)
(***************************************************************************)
EXTENDS Match, Json, IOUtils

Trace == ndJsonDeserialize(IOEnv.TRACE)
Hdr == Trace[1]
Rng(s) == {s[i] : i \in DOMAIN s}
HdrQStr == Rng(Hdr.qstr)

VARIABLE l

Ok(e) == /\ ~e.err /\ ~e.mut
         /\ NormBs(e.res) = MatchB(Norm(e.p), Norm(e.d), NormB(e.b0))

\* explained only by the recorded defect of the underlying matcher
OkDev(e) == /\ ~e.err /\ ~e.mut
            /\ MatchB(Norm(e.p), Norm(e.d), NormB(e.b0)) \subseteq NormBs(e.res)
            /\ NormBs(e.res) \subseteq DevMatchB(Norm(e.p), Norm(e.d), NormB(e.b0))

Init == l = 2
Next == /\ l <= Len(Trace)
        /\ IF Ok(Trace[l]) THEN TRUE
           ELSE IF OkDev(Trace[l]) THEN TLCSet(3, TLCGet(3) \cup {<<l, "D_REBIND_PARTIAL">>})
           ELSE /\ PrintT(<<"REJECT", l, MatchB(Norm(Trace[l].p), Norm(Trace[l].d), NormB(Trace[l].b0))>>)
                /\ TLCSet(2, TLCGet(2) \cup {l})
        /\ l' = l + 1
Spec == Init /\ [][Next]_l

ASSUME TLCSet(1, 0) /\ TLCSet(2, {}) /\ TLCSet(3, {})
Mark == TLCSet(1, IF TLCGet(1) < l THEN l ELSE TLCGet(1))
Accepted ==
  /\ PrintT(<<"CONSUMED", TLCGet(1) - 1, "OF", Len(Trace), "REJECTED", TLCGet(2), "DEVIATIONS", TLCGet(3)>>)
  /\ TLCGet(1) = Len(Trace) + 1
  /\ TLCGet(2) = {}
=============================================================================
