SPECIFICATION Spec
CONSTANTS
  Ks = {"k1", "k2", "k3"}
  Limit = 2
  TTL = 2
  MaxTime = 5
  MaxVal = 4
INVARIANTS Bounded Coherent
PROPERTIES NoStaleHit HitIsLatest
CHECK_DEADLOCK FALSE
