-------------------------------- MODULE CacheMC --------------------------------
(* Bounded exploration of Cache: every sequence of operations on 3 keys with exact times.
   Checked: the limit, unique keys, and that the cache is a cache: a hit returns the value
   last written for the key, and only while that write has not expired. *)
EXTENDS Cache, TLC

CONSTANTS Ks, Limit, TTL, MaxTime, MaxVal

VARIABLES q, now, last, val, seen
vars == <<q, now, last, val, seen>>
\* last[k]: [v, at] of the latest write of k (v = 0: none or removed); seen: the last look-up's outcome

Init == q = <<>> /\ now = 0 /\ last = [k \in Ks |-> [v |-> 0, at |-> 0]] /\ val = 0 /\ seen = [k |-> "", hit |-> FALSE, res |-> 0]

Tick == now < MaxTime /\ now' = now + 1 /\ UNCHANGED <<q, last, val, seen>>
DoAdd(k) == /\ val < MaxVal /\ val' = val + 1
            /\ \E o \in Add(q, Limit, TTL, k, val + 1, now, now - 1) : q' = o.q     \* exact time: bracket [now, now]
            /\ last' = [last EXCEPT ![k] = [v |-> val + 1, at |-> now]]
            /\ UNCHANGED <<now, seen>>
DoGet(k) == /\ \E o \in Get(q, Limit, k, now, now - 1) : q' = o.q /\ seen' = [k |-> k, hit |-> o.hit, res |-> o.res]
            /\ UNCHANGED <<now, last, val>>
DoRemove(k) == /\ \E o \in Remove(q, k) : q' = o.q
               /\ last' = [last EXCEPT ![k] = [v |-> 0, at |-> 0]] /\ UNCHANGED <<now, val, seen>>
DoOldest == /\ q # <<>> /\ \E o \in RemoveOldest(q) : q' = o.q
            /\ last' = [last EXCEPT ![q[1].k] = [v |-> 0, at |-> 0]] /\ UNCHANGED <<now, val, seen>>
Next == Tick \/ DoOldest \/ \E k \in Ks : DoAdd(k) \/ DoGet(k) \/ DoRemove(k)
Spec == Init /\ [][Next]_vars

Bounded == WithinLimit(q, Limit) /\ UniqueKeys(q)
\* a hit is the latest write of that key, still good
HitIsLatest == [][\A k \in Ks : (DoGet(k) /\ seen'.hit) => seen'.res = last[k].v /\ last[k].v # 0]_vars
\* what is cached is the latest write of its key
Coherent == \A i \in DOMAIN q : last[q[i].k].v = q[i].v /\ q[i].lo = last[q[i].k].at + TTL
\* an expired entry is never returned: checked on the step that looks up
NoStaleHit == [][\A k \in Ks : (DoGet(k) /\ seen'.hit) => now <= last[k].at + TTL]_vars
=============================================================================
