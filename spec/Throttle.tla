-------------------------------- MODULE Throttle --------------------------------
(***************************************************************************)
(* core.Throttle.Submit: a submission is refused at once (overflow) when   *)
(* more than PendingLimit submissions are waiting; otherwise it waits,     *)
(* asking the breaker up to Attempts times; the submitted function runs at *)
(* most once.  N submitters, each submitting once; the breaker's answer is *)
(* nondeterministic.                                                       *)
(***************************************************************************)
EXTENDS Naturals, FiniteSets

CONSTANTS Subs, PendingLimit, Attempts

VARIABLES pc, pending, tries, ran, result
vars == <<pc, pending, tries, ran, result>>

Init == /\ pc = [s \in Subs |-> "start"] /\ pending = 0 /\ tries = [s \in Subs |-> 0]
        /\ ran = [s \in Subs |-> 0] /\ result = [s \in Subs |-> "none"]

\* t.Lock(); tooMany := pendingLimit < pending; if !tooMany { pending++ }; t.Unlock()
Enter(s) == /\ pc[s] = "start"
            /\ IF PendingLimit < pending
               THEN /\ pc' = [pc EXCEPT ![s] = "done"] /\ result' = [result EXCEPT ![s] = "overflow"]
                    /\ UNCHANGED pending
               ELSE /\ pc' = [pc EXCEPT ![s] = "waiting"] /\ pending' = pending + 1 /\ UNCHANGED result
            /\ UNCHANGED <<tries, ran>>
\* one attempt: the breaker admits (the function runs) or not
Try(s) == /\ pc[s] = "waiting" /\ tries[s] < Attempts
          /\ \/ /\ ran' = [ran EXCEPT ![s] = ran[s] + 1]
                /\ pc' = [pc EXCEPT ![s] = "leave"] /\ result' = [result EXCEPT ![s] = "ran"]
                /\ UNCHANGED tries
             \/ /\ tries' = [tries EXCEPT ![s] = tries[s] + 1]
                /\ UNCHANGED <<pc, ran, result>>
          /\ UNCHANGED pending
GiveUp(s) == /\ pc[s] = "waiting" /\ tries[s] = Attempts
             /\ pc' = [pc EXCEPT ![s] = "leave"] /\ result' = [result EXCEPT ![s] = "exhausted"]
             /\ UNCHANGED <<pending, tries, ran>>
Leave(s) == /\ pc[s] = "leave" /\ pending' = pending - 1 /\ pc' = [pc EXCEPT ![s] = "done"]
            /\ UNCHANGED <<tries, ran, result>>

Next == (\E s \in Subs : Enter(s) \/ Try(s) \/ GiveUp(s) \/ Leave(s))
        \/ ((\A s \in Subs : pc[s] = "done") /\ UNCHANGED vars)
Spec == Init /\ [][Next]_vars

Waiting == {s \in Subs : pc[s] \in {"waiting", "leave"}}
PendingBound == pending = Cardinality(Waiting) /\ pending <= PendingLimit + 1
RunsAtMostOnce == \A s \in Subs : ran[s] <= 1 /\ (result[s] = "ran" <=> ran[s] = 1)
=============================================================================
