-------------------------------- MODULE WorkWalk --------------------------------
(* The work tree of one event and the walk over it: core/events.go, Location.WorkWalk with its
   step Counter, as used by ProcessEvent (a fresh tree, steps = 0) and RetryEventWork (the same
   tree again, steps = 0), and by callers of the exported WorkWalk with any step budget.

   One small step of this specification is one visit of a node by WorkWalk (the guard
   `Disposition != Complete || c.step()` followed, when it holds, by the node's Do), in the
   order in which the code visits them; the concurrent branch visits all action nodes of one
   EvalRuleCondition in one step.  A call is the closure of these steps from the root to a
   "ret" cursor (Finals); WorkWalkMC explores the steps one by one, WorkWalkTrace compares the
   closure with what a recorded call of the real WorkWalk left behind.

   Abstraction.  Every rule of the shape matches the event; rule r has nw[r] binding sets from
   its `when` (named 1..nw[r], visited in an order FindRules.Do fixes), a condition that yields
   nc[r] binding sets per `when` binding (in a fixed order) or throws while r \in condFail, and
   na[r] actions; action ai of r throws while <<r, ai>> \in actFail.  The action nodes of one
   EvalRuleCondition are numbered p = (cb-1)*na + ai.  Dispositions: "none" (never visited),
   "ok" (the Complete pointer), "err" (any other Condition).

   Behaviour of the code that this mirrors on purpose:
   * the guard calls c.step() only at Complete nodes, so a fresh tree consumes no steps;
   * Counter.step() at Count = 0 refuses and leaves Count = -1, which is the "no limit" value:
     a budget of n > 0 re-executes the first n complete nodes, skips ONE, and re-executes all
     later ones (named here CounterWraps; MC_walk_budget.cfg shows the invariant
     BudgetRespected failing for it).  Budgets < -1 never re-execute a complete node (resume);
   * steps = 0 (the only budget ProcessEvent/RetryEventWork use) re-executes every node: a
     retry is a fresh evaluation whose Values are appended to those of the earlier walks;
   * a failing EvalRuleCondition keeps the action children of its earlier evaluation;
   * in the concurrent branch a failing action does not end the walk: it returns Complete. *)
EXTENDS Integers, Sequences, FiniteSets, TLC

Step(c) == IF c = -1 THEN [ok |-> TRUE, c |-> -1] ELSE [ok |-> c > 0, c |-> c - 1]
Guard(d, c) == IF d # "ok" THEN [redo |-> TRUE, c |-> c] ELSE [redo |-> Step(c).ok, c |-> Step(c).c]

RECURSIVE StepN(_, _)
\* n calls of step() in a row: how many said yes, and the counter afterwards
StepN(c, n) == IF n = 0 THEN [oks |-> 0, c |-> c]
               ELSE LET s1 == Step(c) r == StepN(s1.c, n - 1) IN [oks |-> r.oks + (IF s1.ok THEN 1 ELSE 0), c |-> r.c]

Perms(S) == {f \in [1..Cardinality(S) -> S] : \A i, j \in 1..Cardinality(S) : i # j => f[i] # f[j]}

Blank(e) == [frD |-> "none", order |-> <<>>,
             er |-> [r \in e.rules |-> [d |-> "none", bss |-> <<>>, kids |-> <<>>]],
             done |-> [r \in e.rules |-> "none"],
             values |-> <<>>, cnt |-> -1, pc |-> [k |-> "idle"], execs |-> <<>>, cexecs |-> <<>>]

Ai(e, r, p) == ((p - 1) % e.na[r]) + 1
Tag(r, w, p) == [r |-> r, w |-> w, p |-> p]
Ret(d) == [k |-> "ret", d |-> d]

AfterFR(o) == IF o = <<>> THEN Ret("ok") ELSE [k |-> "er", i |-> 1]
AfterErc(s, i, j) == IF j < Len(s.er[s.order[i]].kids) THEN [k |-> "erc", i |-> i, j |-> j + 1] ELSE [k |-> "done", i |-> i]
ToActs(s, e, i, j) ==
  LET r == s.order[i] IN
  IF e.serial[r]
  THEN (IF Len(s.er[r].kids[j].acts) = 0 THEN AfterErc(s, i, j) ELSE [k |-> "act", i |-> i, j |-> j, p |-> 1])
  ELSE [k |-> "conc", i |-> i, j |-> j]

SuccFR(s, e) ==
  LET g == Guard(s.frD, s.cnt) IN
  IF ~g.redo THEN {[s EXCEPT !.cnt = g.c, !.pc = AfterFR(s.order)]}
  ELSE {[s EXCEPT !.cnt = g.c, !.frD = "ok", !.order = o,
                  !.er = [r \in e.rules |-> [d |-> "none", bss |-> IF r \in e.live THEN b[r] ELSE <<>>, kids |-> <<>>]],
                  !.done = [r \in e.rules |-> "none"], !.pc = AfterFR(o)]
         : o \in Perms(e.live),
           b \in {f \in [e.rules -> UNION {Perms(1..n) : n \in 1..2}] : \A r \in e.rules : f[r] \in Perms(1..e.nw[r])}}

SuccER(s, e) ==
  LET i == s.pc.i  r == s.order[i]  g == Guard(s.er[r].d, s.cnt)
      s1 == IF g.redo
            THEN [s EXCEPT !.cnt = g.c, !.er[r].d = "ok",
                           !.er[r].kids = [j \in 1..Len(s.er[r].bss) |-> [w |-> s.er[r].bss[j], d |-> "none", acts |-> <<>>]]]
            ELSE [s EXCEPT !.cnt = g.c]
  IN {[s1 EXCEPT !.pc = [k |-> "erc", i |-> i, j |-> 1]]}

SuccERC(s, e) ==
  LET i == s.pc.i  j == s.pc.j  r == s.order[i]  node == s.er[r].kids[j]  g == Guard(node.d, s.cnt) IN
  IF ~g.redo THEN LET s1 == [s EXCEPT !.cnt = g.c] IN {[s1 EXCEPT !.pc = ToActs(s1, e, i, j)]}
  ELSE LET s0 == [s EXCEPT !.cnt = g.c, !.cexecs = Append(@, [r |-> r, w |-> node.w])] IN
       IF r \in e.condFail
       THEN {[s0 EXCEPT !.er[r].kids[j].d = "err", !.pc = Ret("err")]}
       ELSE LET s1 == [s0 EXCEPT !.er[r].kids[j].d = "ok",
                                 !.er[r].kids[j].acts = [p \in 1..(e.nc[r] * e.na[r]) |-> "none"]]
            IN {[s1 EXCEPT !.pc = ToActs(s1, e, i, j)]}

SuccAct(s, e) ==
  LET i == s.pc.i  j == s.pc.j  p == s.pc.p  r == s.order[i]  node == s.er[r].kids[j]
      g == Guard(node.acts[p], s.cnt)
      fails == <<r, Ai(e, r, p)>> \in e.actFail
      t == Tag(r, node.w, p)
      s1 == IF ~g.redo THEN [s EXCEPT !.cnt = g.c]
            ELSE IF fails THEN [s EXCEPT !.cnt = g.c, !.execs = Append(@, t), !.er[r].kids[j].acts[p] = "err"]
            ELSE [s EXCEPT !.cnt = g.c, !.execs = Append(@, t), !.values = Append(@, t), !.er[r].kids[j].acts[p] = "ok"]
  IN IF s1.er[r].kids[j].acts[p] # "ok" THEN {[s1 EXCEPT !.pc = Ret("err")]}
     ELSE IF p < Len(node.acts) THEN {[s1 EXCEPT !.pc = [k |-> "act", i |-> i, j |-> j, p |-> p + 1]]}
     ELSE {[s1 EXCEPT !.pc = AfterErc(s1, i, j)]}

RECURSIVE ApplyActs(_, _, _, _, _, _)
\* the executions of the action nodes in `todo` (a sequence of positions), appended in that order
ApplyActs(s, e, r, j, todo, k) ==
  IF k > Len(todo) THEN s
  ELSE LET p == todo[k]  t == Tag(r, s.er[r].kids[j].w, p) IN
       ApplyActs(IF <<r, Ai(e, r, p)>> \in e.actFail
                 THEN [s EXCEPT !.execs = Append(@, t), !.er[r].kids[j].acts[p] = "err"]
                 ELSE [s EXCEPT !.execs = Append(@, t), !.values = Append(@, t), !.er[r].kids[j].acts[p] = "ok"],
                 e, r, j, todo, k + 1)

SeqOfSet(S) == CHOOSE f \in Perms(S) : \A a, b \in 1..Cardinality(S) : a < b => f[a] < f[b]

SuccConc(s, e) ==
  LET i == s.pc.i  j == s.pc.j  r == s.order[i]  node == s.er[r].kids[j]
      all == 1..Len(node.acts)
      C == {p \in all : node.acts[p] = "ok"}
      sn == StepN(s.cnt, Cardinality(C))
  IN { LET s1 == ApplyActs([s EXCEPT !.cnt = sn.c], e, r, j, SeqOfSet((all \ C) \cup S), 1)
       IN [s1 EXCEPT !.pc = AfterErc(s1, i, j)]
       : S \in {X \in SUBSET C : Cardinality(X) = sn.oks} }

SuccDone(s, e) ==
  LET i == s.pc.i  r == s.order[i]  g == Guard(s.done[r], s.cnt) IN
  {[s EXCEPT !.cnt = g.c, !.done[r] = "ok",
             !.pc = IF i < Len(s.order) THEN [k |-> "er", i |-> i + 1] ELSE Ret("ok")]}

Succ(s, e) ==
  CASE s.pc.k = "fr" -> SuccFR(s, e)
    [] s.pc.k = "er" -> SuccER(s, e)
    [] s.pc.k = "erc" -> SuccERC(s, e)
    [] s.pc.k = "act" -> SuccAct(s, e)
    [] s.pc.k = "conc" -> SuccConc(s, e)
    [] s.pc.k = "done" -> SuccDone(s, e)
    [] OTHER -> {}

\* the call WorkWalk(tree, steps): NewCounter, then the visits
Call(s, steps) == [s EXCEPT !.cnt = IF steps = 0 THEN -1 ELSE steps, !.pc = [k |-> "fr"], !.execs = <<>>, !.cexecs = <<>>]

RECURSIVE Run(_, _)
Run(S, e) == IF \A s \in S : s.pc.k = "ret" THEN S
             ELSE Run(UNION {IF s.pc.k = "ret" THEN {s} ELSE Succ(s, e) : s \in S}, e)
Finals(s, steps, e) == Run({Call(s, steps)}, e)

Count(q, x) == Cardinality({i \in 1..Len(q) : q[i] = x})
SameBag(q1, q2) == Len(q1) = Len(q2) /\ \A i \in 1..Len(q1) : Count(q1, q1[i]) = Count(q2, q1[i])
=============================================================================
