SPECIFICATION Spec
CONSTANTS
  Class = "slow"
  HasTimeout = TRUE
  Buffered = TRUE
INVARIANT Outcome
PROPERTY Returns
