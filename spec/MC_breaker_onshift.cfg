SPECIFICATION Spec
CONSTANTS
  Limit = 2
  Ticks = 3
  Res = 3
  MaxTime = 32
  MaxGap = 7
  Variant = "onshift"
INVARIANT RateBound
PROPERTY Recovers
