SPECIFICATION Spec
CONSTANTS
  Subs = {1, 2, 3, 4, 5}
  PendingLimit = 2
  Attempts = 2
INVARIANTS PendingBound RunsAtMostOnce
