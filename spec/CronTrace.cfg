SPECIFICATION Spec
CONSTANTS
  Tracked = TRUE
  ResetAlways = TRUE
CONSTRAINT Mark
POSTCONDITION Accepted
CHECK_DEADLOCK FALSE
