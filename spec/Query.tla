-------------------------------- MODULE Query --------------------------------
(***************************************************************************)
(* Condition queries.  A query is a tree:                                  *)
(*   [t |-> "pattern", p |-> pattern]                                      *)
(*   [t |-> "and", qs |-> <<q1, ...>>]        left-to-right composition     *)
(*   [t |-> "or",  qs |-> <<q1, ...>>, sc |-> BOOLEAN]   per incoming       *)
(*        binding, concatenation of the disjuncts' results, stopping at    *)
(*        the first non-empty one when sc (shortCircuit)                    *)
(*   [t |-> "not", q |-> q1]     keeps a binding iff q1 yields nothing      *)
(*   [t |-> "code", kind |-> k]  a script from a fixed family (see CodeOn)  *)
(*   [t |-> "empty"]             identity                                   *)
(* Results are BAGS of bindings (functions binding -> count > 0), and an   *)
(* error anywhere aborts the whole evaluation.                              *)
(* Facts: the set of fact bodies visible to the location (its own and its  *)
(* ancestors'), one element per stored fact: [loc, id, body].               *)
(***************************************************************************)
EXTENDS Match, Integers

EmptyBag == <<>>
Single(b) == (b :> 1)
BagPlus(A, B) == [x \in DOMAIN A \cup DOMAIN B |->
                    (IF x \in DOMAIN A THEN A[x] ELSE 0) + (IF x \in DOMAIN B THEN B[x] ELSE 0)]
BagScale(n, A) == [x \in DOMAIN A |-> n * A[x]]
RECURSIVE BagSum(_)
BagSum(S) == IF S = {} THEN EmptyBag
             ELSE LET x == CHOOSE y \in S : TRUE IN BagPlus(x, BagSum(S \ {x}))
\* sum of the bags in a set of <<tag, bag>> pairs (the tag keeps equal bags apart)
RECURSIVE BagSum2(_)
BagSum2(S) == IF S = {} THEN EmptyBag
              ELSE LET x == CHOOSE y \in S : TRUE IN BagPlus(x[2], BagSum2(S \ {x}))
\* sum over incoming bindings b of count(b) * result(b)
RECURSIVE BagSum3a(_, _, _)
BagSum3a(D, B, rs) == IF D = {} THEN EmptyBag
                      ELSE LET b == CHOOSE y \in D : TRUE
                           IN BagPlus(BagScale(B[b], rs[b].bag), BagSum3a(D \ {b}, B, rs))
BagSum3(B, rs) == BagSum3a(DOMAIN B, B, rs)
\* a sequence of bindings as a bag
SeqBag(s) == [b \in {s[i] : i \in DOMAIN s} |-> Cardinality({i \in DOMAIN s : s[i] = b})]

Ok(B) == [err |-> FALSE, bag |-> B]
Err == [err |-> TRUE, bag |-> EmptyBag]

\* b extended/overridden by m (core.ExtendBindings)
Over(b, m) == [x \in DOMAIN b \cup DOMAIN m |-> IF x \in DOMAIN m THEN m[x] ELSE b[x]]

\* one fact can match in several ways; one fact body can be stored several times
PatternOn(p, b, Facts) ==
  LET bound == Subst(p, b)
      perFact(f) == LET ms == MatchB(bound, f.body, <<>>)
                    IN [x \in {Over(b, m) : m \in ms} |-> Cardinality({m \in ms : Over(b, m) = x})]
  IN BagSum2({<<f, perFact(f)>> : f \in Facts})

\* The script family.  Scripts see the bindings as variables without "?".
\*   true / false / null / zero / str : constants
\*   xeq1  : x === 1       (ReferenceError, i.e. an error, when ?x is unbound)
\*   obj   : ({z: 7})      (adds ?z = 7, overriding)
\*   throw : throw "no"    syntax : does not compile
CodeOn(kind, b) ==
  CASE kind = "true" -> Ok(Single(b))
    [] kind = "false" -> Ok(EmptyBag)
    [] kind = "null" -> Ok(EmptyBag)
    [] kind = "zero" -> Ok(Single(b))
    [] kind = "str" -> Ok(Single(b))
    [] kind = "xeq1" -> IF "?x" \notin DOMAIN b THEN Err
                        ELSE IF b["?x"] = Num(1) THEN Ok(Single(b)) ELSE Ok(EmptyBag)
    [] kind = "obj" -> Ok(Single(Over(b, ("?z" :> Num(7)))))
    [] kind \in {"throw", "syntax"} -> Err

RECURSIVE Eval(_, _, _), EvalAnd(_, _, _, _), EvalOr(_, _, _, _, _)

\* result of q for the single incoming binding b
Eval1(q, b, Facts) ==
  CASE q.t = "pattern" -> Ok(PatternOn(q.p, b, Facts))
    [] q.t = "and" -> EvalAnd(q.qs, 1, Single(b), Facts)
    [] q.t = "or" -> EvalOr(q.qs, 1, b, q.sc, Facts)
    [] q.t = "not" -> LET r == Eval(q.q, Single(b), Facts)
                      IN IF r.err THEN Err ELSE IF DOMAIN r.bag = {} THEN Ok(Single(b)) ELSE Ok(EmptyBag)
    [] q.t = "code" -> CodeOn(q.kind, b)
    [] q.t = "empty" -> Ok(Single(b))

\* result of q for a bag of incoming bindings
Eval(q, B, Facts) ==
  IF q.t = "code" /\ q.kind = "syntax" THEN Err        \* compiled before any binding is looked at
  ELSE LET rs == [b \in DOMAIN B |-> Eval1(q, b, Facts)]
       IN IF \E b \in DOMAIN B : rs[b].err THEN Err
          ELSE Ok(BagSum3(B, rs))

EvalAnd(qs, i, B, Facts) ==
  IF i > Len(qs) THEN Ok(B)
  ELSE LET r == Eval(qs[i], B, Facts) IN IF r.err THEN Err ELSE EvalAnd(qs, i + 1, r.bag, Facts)

EvalOr(qs, i, b, sc, Facts) ==
  IF i > Len(qs) THEN Ok(EmptyBag)
  ELSE LET r == Eval(qs[i], Single(b), Facts)
       IN IF r.err THEN Err
          ELSE IF sc /\ DOMAIN r.bag # {} THEN r
          ELSE LET rest == EvalOr(qs, i + 1, b, sc, Facts)
               IN IF rest.err THEN Err ELSE Ok(BagPlus(r.bag, rest.bag))

\* a tree as deserialised from JSON (patterns with arrays as sequences) in internal form
RECURSIVE NormTree(_)
NormTree(q) ==
  CASE q.t = "pattern" -> [t |-> "pattern", p |-> Norm(q.p)]
    [] q.t = "and" -> [t |-> "and", qs |-> [i \in DOMAIN q.qs |-> NormTree(q.qs[i])]]
    [] q.t = "or" -> [t |-> "or", qs |-> [i \in DOMAIN q.qs |-> NormTree(q.qs[i])], sc |-> q.sc]
    [] q.t = "not" -> [t |-> "not", q |-> NormTree(q.q)]
    [] OTHER -> q

\* queries are parsed (and scripts compiled) before anything is evaluated
RECURSIVE HasSyntax(_)
HasSyntax(q) ==
  CASE q.t = "code" -> q.kind = "syntax"
    [] q.t \in {"and", "or"} -> \E i \in DOMAIN q.qs : HasSyntax(q.qs[i])
    [] q.t = "not" -> HasSyntax(q.q)
    [] OTHER -> FALSE

EvalTop(q, B, Facts) == IF HasSyntax(q) THEN Err ELSE Eval(q, B, Facts)
=============================================================================
