-------------------------------- MODULE Totality --------------------------------
(***************************************************************************)
(* C13: the bounded grammar of unusual JSON documents that the harness     *)
(* feeds to every public operation (as fact, rule, pattern, query, event), *)
(* and the canary protocol that has to work afterwards.                    *)
(*                                                                         *)
(* Docs is enumerated by TLC (each document is one initial state and is    *)
(* written out for the harness); TotalTrace.tla validates what the real    *)
(* code did with each of them.                                             *)
(***************************************************************************)
EXTENDS JsonVal, Json, IOUtils

O1(k, v) == Obj(k :> v)
O2(k1, v1, k2, v2) == Obj((k1 :> v1) @@ (k2 :> v2))

\* every JSON type, variable-looking strings, empty and heterogeneous containers
Shapes ==
  { Null, BoolV(TRUE), Num(5), Num(0), Str("x"), Str(""), Var("?v"), Var("?"), EmptyObj, Arr({}),
    Arr({Num(1), Str("a")}), Arr({Var("?v"), Var("?w")}), Arr({Null}), O1("a", Num(1)), O1("?k", Num(1)),
    O2("?k", Num(1), "b", Num(2)), Arr({O1("a", Num(1)), Str("s")}), O1("a", O1("b", Arr({EmptyObj}))),
    Arr({Arr({Arr({})})}),
    Arr({Null, Str("x")}), Arr({Null, Str("a"), Str("b")}), Arr({Null, Num(1), Num(2)}) }     \* null among atoms of one type

TopKeys == {"rule", "when", "pattern", "schedule", "condition", "action", "actions", "expires", "ttl",
            "deleteWith", "id", "!enabled", "!writeKey", "!x", "trigger!", "evaluate!", "code",
            "and", "or", "not", "locations", "policies", "once", "props", "?k", "", "!cacheTTL"}
RuleKeys == {"when", "schedule", "condition", "action", "actions", "expires", "ttl", "deleteWith", "policies", "once", "id"}

GoodAction == O1("code", Str("1"))
GoodWhen == O1("pattern", O1("canary-event", Var("?v")))

\* the three control properties only count as strings; a string there is ordinary use, not an unusual shape
Meaningful(k, v) == k \in {"!enabled", "!writeKey", "!readKey"} /\ v.k \in {"s", "v"}

Docs ==
       UNION {{O1(k, v) : v \in {s \in Shapes : ~Meaningful(k, s)}} : k \in TopKeys}
  \cup {O1("rule", O1(k, v)) : k \in RuleKeys, v \in Shapes}
  \cup {O1("rule", O2(k, v, "action", GoodAction)) : k \in {"when", "schedule", "condition"}, v \in Shapes}
  \cup {O2("when", GoodWhen, k, v) : k \in RuleKeys \ {"when"}, v \in Shapes}          \* as a rule body
  \cup {O2("when", O1("pattern", v), "action", GoodAction) : v \in Shapes}
  \cup {O2("when", O1("pattern", O1("a", v)), "action", GoodAction) : v \in Shapes}     \* every shape as the VALUE of an indexed property
  \cup {O1(k, v) : k \in {"a", "canary-event"}, v \in Shapes}                           \* ... and of a property an indexed rule names
  \cup {O2("when", GoodWhen, "action", O1(k, v)) : k \in {"code", "endpoint", "opts"}, v \in Shapes}
  \cup {O1(q, O1(k, v)) : q \in {"not", "condition"}, k \in {"pattern", "code", "and", "or", "not"}, v \in Shapes}
  \cup {O2("a", v, "b", w) : v \in {Var("?v"), Str("x")}, w \in {Var("?v"), Var("?w"), Arr({Var("?v")})}}
  \cup {O2("id", v, "!x", Num(1)) : v \in Shapes}
  \cup {O2("schedule", v, "action", GoodAction) : v \in Shapes \cup {Str("+whenever"), Str("* * *"), Str("+1h")}}   \* scheduled rules
  \cup {O1("rule", O2("when", GoodWhen, k, v)) : k \in {"action", "actions", "condition"}, v \in Shapes}      \* a rule-shaped fact the canary event reaches
  \cup {O2(t[1], t[2], k, v) : t \in {<<"ttl", Str("1h")>>, <<"expires", Num(2000000000)>>},      \* an expiration next to every unusual shape
                               k \in {"rule", "when", "deleteWith", "id", "action"}, v \in Shapes}

VARIABLE d
Init == d \in Docs
Next == UNCHANGED d
Spec == Init /\ [][Next]_d

\* written once per document (checked as an invariant, i.e. evaluated on every initial state)
Emit == Serialize(ToJson(d) \o "\n", IOEnv.GEN_OUT,
                  [format |-> "TXT", charset |-> "UTF-8", openOptions |-> <<"WRITE", "CREATE", "APPEND">>]).exitValue = 0
=============================================================================
