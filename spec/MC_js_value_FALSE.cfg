SPECIFICATION Spec
CONSTANTS
  Class = "value"
  HasTimeout = FALSE
  Buffered = TRUE
INVARIANT Outcome
PROPERTY Returns
