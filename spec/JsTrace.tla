------------------------------- MODULE JsTrace -------------------------------
(***************************************************************************)
(* Validation of recorded script executions against the outcomes that      *)
(* JsWatchdog (Outcome, Returns) allows for each script class ("loopcatch" is a loop that catches what is thrown at it, "loopfor" the statement for(;;){}):             *)
(*   value  -> its value, no error;   throw / syntax -> an error;          *)
(*   loop   -> an error, and the caller has control back within            *)
(*             limit + Slack;                                              *)
(*   slow   -> its value when it needs less than the limit (or there is    *)
(*             none), an error within limit + Slack when it needs more.    *)
(* Paths: "run" Location.RunJavascript, "cond" a code condition of a rule, *)
(* "action" a rule action (outcome = the node's disposition and value),    *)
(* "cond-add": a rule whose condition does not compile is refused.         *)
(***************************************************************************)
EXTENDS JsonVal, Json, IOUtils

Trace == ndJsonDeserialize(IOEnv.TRACE)
Slack == 1000        \* "within a bounded time of the limit": one second
Generous == 5000     \* scripts that are not stopped: just come back

VARIABLE l

O3(k1, v1, k2, v2, k3, v3) == Obj((k1 :> v1) @@ (k2 :> v2) @@ (k3 :> v3))
ValueOf(e) == CASE e.path \in {"cond", "cond-or"} -> Num(1)                      \* the condition kept its one binding
                [] e.class = "slow" -> IF e.path = "cond" THEN Num(1) ELSE Str("slept")
                [] OTHER -> O3("x", Num(1), "y", Str("a"), "n", Num(2))   \* saw x = 1, y = "a"

\* the limit that applies: the location's own if positive, none if negative, the system default otherwise
Limit(e) == IF e.limit_ms > 0 THEN e.limit_ms ELSE IF e.limit_ms < 0 THEN 0 ELSE e.default_ms
Stopped(e) == Limit(e) > 0 /\ (e.class \in {"loop", "loopcatch", "loopfor"} \/ (e.class = "slow" /\ e.dur_ms > Limit(e)))

Ok(e) ==
  /\ e.returned
  /\ e.elapsed_ms <= (IF Stopped(e) THEN Limit(e) + Slack ELSE Generous)
  /\ CASE e.class \in {"throw", "syntax"} -> e.err
       [] Stopped(e) -> e.err
       [] OTHER -> ~e.err /\ Norm(e.val) = ValueOf(e)

Init == l = 2
Next == /\ l <= Len(Trace)
        /\ IF Ok(Trace[l]) THEN TRUE
           ELSE /\ PrintT(<<"REJECT", l>>) /\ TLCSet(2, TLCGet(2) \cup {l})
        /\ l' = l + 1
Spec == Init /\ [][Next]_l

ASSUME TLCSet(1, 0) /\ TLCSet(2, {}) /\ TLCSet(3, {})
Mark == TLCSet(1, IF TLCGet(1) < l THEN l ELSE TLCGet(1))
Accepted ==
  /\ PrintT(<<"CONSUMED", TLCGet(1) - 1, "OF", Len(Trace), "REJECTED", TLCGet(2), "DEVIATIONS", TLCGet(3)>>)
  /\ TLCGet(1) = Len(Trace) + 1
  /\ TLCGet(2) = {}
=============================================================================
