SPECIFICATION Spec
CONSTANTS
  Family = "rules"
  Locs = {"A"}
  Ids = {"r1", "r2"}
  MaxNow = 0
  MaxOps = 8
  T0 = 1000
  MaxFacts = 3
  Bang <- McBang
  Ints <- McInts
  Durs <- McDurs
  Times <- McTimes
  QStr <- McQStr
  BadJs <- McBadJs
  Acts <- McActs
  CondCodes <- McCondCodes
  OneShot <- McOneShot

INVARIANTS Emitted
CHECK_DEADLOCK FALSE
