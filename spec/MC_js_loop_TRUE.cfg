SPECIFICATION Spec
CONSTANTS
  Class = "loop"
  HasTimeout = TRUE
  Buffered = TRUE
INVARIANT Outcome
PROPERTY Returns
