--------------------------------- MODULE Cache ---------------------------------
(***************************************************************************)
(* core.Cache: the TTL + LRU cache behind SlurpCache and HTTPClientCache.  *)
(* State: the entries in order of use, least recently used first; each     *)
(* entry carries its key, its value and the instant it expires, known only *)
(* up to the bracket [lo, hi] of the call that wrote it.  The operations   *)
(* are given as functions from a state to the set of possible outcomes     *)
(* [q, hit, res, called, err] for a call that happened somewhere in the    *)
(* bracket [t0, t1].                                                       *)
(*   limit = 0 switches caching off.                                       *)
(*   An entry is good while now <= expires.                                *)
(***************************************************************************)
EXTENDS Integers, Sequences

Keys(q) == [i \in DOMAIN q |-> q[i].k]
Has(q, k) == \E i \in DOMAIN q : q[i].k = k
At(q, k) == CHOOSE i \in DOMAIN q : q[i].k = k
Without(q, k) == SelectSeq(q, LAMBDA e : e.k # k)
Out(q, hit, res, called, err) == [q |-> q, hit |-> hit, res |-> res, called |-> called, err |-> err]

\* write k (new or not) as the most recently used entry; a new key may push the oldest out
Put(q, limit, ttl, k, v, t0, t1) ==
  LET q1 == Append(Without(q, k), [k |-> k, v |-> v, lo |-> t0 + ttl, hi |-> t1 + 1 + ttl])
  IN IF limit = 0 THEN q ELSE IF Len(q1) > limit THEN Tail(q1) ELSE q1

Add(q, limit, ttl, k, v, t0, t1) == {Out(Put(q, limit, ttl, k, v, t0, t1), FALSE, 0, FALSE, FALSE)}

\* a hit makes the entry the most recently used; an expired entry is dropped by the look-up
Get(q, limit, k, t0, t1) ==
  IF limit = 0 \/ ~Has(q, k) THEN {Out(q, FALSE, 0, FALSE, FALSE)}
  ELSE LET e == q[At(q, k)]
           good == IF e.hi < t0 THEN {} ELSE {Out(Append(Without(q, k), e), TRUE, e.v, FALSE, FALSE)}
           gone == IF e.lo >= t1 + 1 THEN {} ELSE {Out(Without(q, k), FALSE, 0, FALSE, FALSE)}
       IN good \cup gone

\* look up; on a miss compute the value and, unless that fails, cache it
GetWith(q, limit, ttl, k, v, fail, t0, t1) ==
  UNION {IF o.hit THEN {o}
         ELSE IF fail THEN {Out(o.q, FALSE, 0, TRUE, TRUE)}
         ELSE {Out(Put(o.q, limit, ttl, k, v, t0, t1), FALSE, v, TRUE, FALSE)} : o \in Get(q, limit, k, t0, t1)}

Remove(q, k) == {Out(Without(q, k), FALSE, 0, FALSE, FALSE)}
RemoveOldest(q) == {Out(IF q = <<>> THEN q ELSE Tail(q), FALSE, 0, FALSE, FALSE)}
Purge(q) == {Out(<<>>, FALSE, 0, FALSE, FALSE)}
Length(q) == {Out(q, FALSE, Len(q), FALSE, FALSE)}

\* what every state satisfies
WithinLimit(q, limit) == Len(q) <= limit
UniqueKeys(q) == \A i, j \in DOMAIN q : q[i].k = q[j].k => i = j
=============================================================================
