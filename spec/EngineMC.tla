------------------------------ MODULE EngineMC ------------------------------
(***************************************************************************)
(* Engine closed with a small catalogue of ids, facts, patterns, rules and *)
(* events, for exhaustive model checking (MC_*.cfg) and for generating     *)
(* operation histories that the harness executes on the real code          *)
(* (Gen_*.cfg, simulation mode).  The catalogue is chosen by the constant  *)
(* Family so that each property family explores the operations it is about.*)
(***************************************************************************)
EXTENDS Engine, Json, IOUtils

CONSTANTS Family,   \* "facts" | "rules" | "guards" | "parents"
          Locs, Ids, MaxNow, MaxOps, T0

VARIABLES mem, ro, now, nops, last, hist
vars == <<mem, ro, now, nops, last, hist>>
View == <<mem, ro, now, nops>>

McBang == ("!writeKey" :> "writeKey") @@ ("!readKey" :> "readKey") @@ ("!enabled" :> "enabled")
          @@ ("!disabled" :> "disabled") @@ ("!parents" :> "parents")
McInts == [s \in {ToString(i) : i \in 0..9} \cup {ToString(T0 + i) : i \in 0..9} |->
             CHOOSE i \in (0..9) \cup (T0..(T0+9)) : ToString(i) = s]
McDurs == ("1s" :> 1) @@ ("2s" :> 2)
McTimes == <<>>
McQStr == {"?x", "?y", "?q"}
McBadJs == {"syntax error("}
McActs == [c \in {"1", "2", "3", "4", "5"} |-> [kind |-> "num", tag |-> c]]
McCondCodes == <<>>
McOneShot == {"+1h"}

O1(k, v) == Obj(k :> v)
O2(k1, v1, k2, v2) == Obj((k1 :> v1) @@ (k2 :> v2))
O3(k1, v1, k2, v2, k3, v3) == Obj((k1 :> v1) @@ (k2 :> v2) @@ (k3 :> v3))

\* ---- catalogue -----------------------------------------------------------
PlainFacts ==
  { O1("a", Num(1)),
    O2("a", Num(1), "b", Str("x")),
    O2("a", Str("y"), "c", Arr({Str("x"), Num(2)})),
    O1("b", O1("n", BoolV(TRUE))) }

DwFacts == { O2("a", Num(1), "deleteWith", Arr({IdVal(i)})) : i \in Ids }
           \cup { O2("b", Str("x"), "deleteWith", Arr({IdVal(i) : i \in Ids})) }

TtlFacts == { O2("a", Num(1), "ttl", Num(1)), O2("b", Str("x"), "ttl", Str("2s")),
              O2("a", Num(1), "expires", Num(T0 + 2)), O2("a", Num(1), "ttl", Num(0)) }

KeyFacts == { O1("!writeKey", Str("k1")), O1("!readKey", Str("k1")), O1("!enabled", Str("no")),
              O1("!enabled", Str("yes")) }

Patterns ==
  { O1("a", Num(1)), O1("a", Var("?x")), O2("a", Var("?x"), "b", Var("?y")),
    O1("c", Arr({Var("?x")})), O1("b", Str("x")), EmptyObj }

Act(code) == O1("code", Str(code))
RuleOf(pat, code) == O2("when", O1("pattern", pat), "action", Act(code))
Rules ==
  { RuleOf(O1("a", Num(1)), "1"), RuleOf(O1("a", Var("?x")), "2"), RuleOf(O1("b", Str("x")), "3"),
    RuleOf(EmptyObj, "4"),
    O3("when", O1("pattern", O1("a", Num(1))), "action", Act("5"), "ttl", Num(1)),
    O1("when", O1("pattern", O1("a", Num(1)))) }       \* invalid: no action

Events == { O1("a", Num(1)), O2("a", Str("y"), "b", Str("x")), O1("z", Null) }

CtxKeys == {"", "k1"}

Base(o, l) == [op |-> o, loc |-> l, id |-> "", rid |-> "", val |-> Null, inh |-> FALSE,
               wk |-> "", rk |-> "", now |-> now, flag |-> FALSE, names |-> {}, hooked |-> FALSE]

FreshId(l) == "gen" \o ToString(nops)

FactsFor == CASE Family = "facts" -> PlainFacts \cup DwFacts
              [] Family = "expiry" -> TtlFacts \cup {O1("a", Num(1))}
              [] Family = "guards" -> KeyFacts \cup {O1("a", Num(1))}
              [] OTHER -> {O1("a", Num(1)), O2("a", Str("y"), "b", Str("x"))}

WithKeys(S) == IF Family = "guards" THEN {[o EXCEPT !.wk = w, !.rk = r] : o \in S, w \in CtxKeys, r \in CtxKeys} ELSE S

OpsAt ==
  WithKeys(
    UNION { {[Base("AddFact", l) EXCEPT !.id = i, !.rid = IF i = "" THEN FreshId(l) ELSE i, !.val = f] :
                 i \in Ids \cup {""}, f \in FactsFor}
            \cup {[Base("RemFact", l) EXCEPT !.id = i] : i \in Ids}
            \cup {[Base("GetFact", l) EXCEPT !.id = i] : i \in Ids}
            \cup {[Base("SearchFacts", l) EXCEPT !.val = p, !.inh = h] : p \in Patterns, h \in {Family = "parents"}}
            \cup (IF Family \in {"rules", "parents", "guards"}
                  THEN {[Base("AddRule", l) EXCEPT !.id = i, !.rid = i, !.val = r] : i \in Ids, r \in Rules}
                       \cup {[Base("RemRule", l) EXCEPT !.id = i] : i \in Ids}
                       \cup {[Base("GetRule", l) EXCEPT !.id = i] : i \in Ids}
                       \cup {[Base("EnableRule", l) EXCEPT !.id = i, !.flag = b] : i \in Ids, b \in BOOLEAN}
                       \cup {[Base("ProcessEvent", l) EXCEPT !.val = e] : e \in Events}
                       \cup {[Base("SearchRules", l) EXCEPT !.val = e] : e \in Events}
                       \cup {Base("ListRules", l), Base("Clear", l)}
                  ELSE {})
            \cup (IF Family = "parents"
                  THEN {[Base("SetParents", l) EXCEPT !.names = S] : S \in SUBSET Locs} \cup {Base("GetParents", l)}
                  ELSE {})
            \cup (IF Family = "guards"
                  THEN {[Base("SetReadOnly", l) EXCEPT !.flag = b] : b \in BOOLEAN} \cup {Base("StateSize", l), Base("Clear", l)}
                  ELSE {})
            \cup (IF Family = "expiry" THEN {Base("Reload", l)} ELSE {})
          : l \in Locs })

GChoices(op) ==
  LET must == MustPurge(mem, op)
  IN {g \in [Locs -> SUBSET (UNION {DOMAIN mem[a] : a \in Locs})] :
        \A a \in Locs : must[a] \subseteq g[a] /\ g[a] \subseteq ExpiredIds(mem[a], now)}

Init == /\ mem = [l \in Locs |-> <<>>] /\ ro = [l \in Locs |-> FALSE]
        /\ now = T0 /\ nops = 0 /\ last = [op |-> Base("none", CHOOSE l \in Locs : TRUE), resp |-> R0, pre |-> [l \in Locs |-> <<>>]]
        /\ hist = <<>>

DoOp == /\ nops < MaxOps
        /\ \E op \in OpsAt : \E G \in GChoices(op) : \E o \in Step(mem, ro, op, G) :
             /\ mem' = o.mem /\ ro' = o.ro
             /\ last' = [op |-> op, resp |-> o.resp, pre |-> mem]
             /\ hist' = Append(hist, op)
        /\ nops' = nops + 1 /\ now' = now

Tick == /\ now < T0 + MaxNow /\ nops < MaxOps
        /\ now' = now + 1 /\ UNCHANGED <<mem, ro, nops, last>>
        /\ hist' = Append(hist, Base("Tick", CHOOSE l \in Locs : TRUE))

Next == DoOp \/ Tick
Spec == Init /\ [][Next]_vars

-----------------------------------------------------------------------------
(* Properties of the design, checked on every reachable state/transition.  *)

Refusals == {"denied", "disabled", "capacity", "expired", "error", "notfound"}

\* C07: nothing expired is ever returned
NeverSeenAfter ==
  LET r == last.resp  l == last.op.loc
  IN /\ \A x \in r.found : \A a \in Locs : x.id \in DOMAIN last.pre[a] /\ x.body = last.pre[a][x.id].body
                                 => ~Expired(last.pre[a][x.id], last.op.now)
     /\ (last.op.op \in {"GetFact", "GetRule"} /\ r.c = "ok") => ~Expired(last.pre[l][last.op.id], last.op.now)

\* C19 / C20: a refused operation changes nothing but lazily purged expired items
RefusalHarmless ==
  (last.op.op # "none" /\ last.resp.c \in Refusals) =>
     \A a \in Locs : /\ DOMAIN mem[a] \subseteq DOMAIN last.pre[a]
                     /\ \A i \in DOMAIN mem[a] : mem[a][i] = last.pre[a][i]
                     /\ \A i \in DOMAIN last.pre[a] \ DOMAIN mem[a] :
                          \E j \in ExpiredIds(last.pre[a], last.op.now) : i \in Deps(last.pre[a], {j})

\* C20: capacity
Capacity == (last.op.op \in {"AddFact", "AddRule"} /\ last.resp.c = "ok")
               => Cardinality(DOMAIN last.pre[last.op.loc]) < MaxFacts \/ \E i \in DOMAIN last.pre[last.op.loc] : Expired(last.pre[last.op.loc][i], last.op.now)

\* C08: an explicit removal removes the closure of its dependents and nothing that is neither
\* in that closure nor expired
CascadeExact ==
  (last.op.op \in {"RemFact"} /\ last.resp.c = "ok") =>
     LET a == last.op.loc
         gone == DOMAIN last.pre[a] \ DOMAIN mem[a]
         clo == Deps(last.pre[a], {last.op.id})
     IN /\ (last.op.id \in DOMAIN last.pre[a] => clo \subseteq gone)
        /\ \A i \in gone : i \in clo \/ \E j \in ExpiredIds(last.pre[a], last.op.now) : i \in Deps(last.pre[a], {j})

\* C01 / C10: whatever is dispatched is a stored, visible, enabled rule whose pattern matches
DispatchSound ==
  (last.op.op = "ProcessEvent" /\ last.resp.c = "ok") =>
     \A x \in last.resp.found :
        \E a \in Locs : /\ x.id \in Vis(last.pre[a], last.op.now)
                        /\ IsRuleItem(last.pre[a][x.id])
                        /\ x.bss = Match(WhenPattern(RuleBody(last.pre[a][x.id])), last.op.val)
                        /\ x.bss # {}
                        /\ ~RuleDisabled(last.pre[last.op.loc], last.op.now, x.id)

\* C19: protected locations answer only to the right key
Guarded ==
  LET l == last.op.loc  m == last.pre[l]  t == last.op.now
  IN /\ (last.op.op \in {"AddFact", "RemFact", "AddRule", "RemRule", "EnableRule", "Clear", "SetParents"}
           /\ last.resp.c = "ok")
         => \/ WriteOk(m, t, FALSE, last.op.wk) /\ ~(\E s \in {TRUE} : s /\ FALSE)
            \/ \E j \in ExpiredIds(m, t) : TRUE
     /\ (last.op.op \in {"GetFact", "GetRule", "SearchFacts", "SearchRules", "ListRules", "StateSize"}
           /\ last.resp.c = "ok")
         => ReadOk(m, t, last.op.rk) \/ \E j \in ExpiredIds(m, t) : TRUE

-----------------------------------------------------------------------------
(* Behaviour generation (simulation mode): write each finished history.    *)

OutFile == IOEnv.GEN_OUT
EmitHist ==
  Serialize(ToJson(hist) \o "\n", OutFile,
            [format |-> "TXT", charset |-> "UTF-8", openOptions |-> <<"WRITE", "CREATE", "APPEND">>]).exitValue = 0
Emitted == (nops = MaxOps) => EmitHist
=============================================================================
