----------------------------- MODULE EngineTrace -----------------------------
(***************************************************************************)
(* Trace validation for Engine: every line of an ndjson trace recorded     *)
(* from the real code is one operation with its arguments, its result and  *)
(* the ids that storage holds afterwards.  A line is accepted iff some     *)
(* outcome Engine!Step allows has that result and that storage content.    *)
(* Many traces are concatenated; a "reset" line starts a new one.          *)
(***************************************************************************)
EXTENDS Engine, Json, IOUtils

Trace == ndJsonDeserialize(IOEnv.TRACE)
Hdr == Trace[1]
Rng(s) == {s[i] : i \in DOMAIN s}

HdrBang == Hdr.bang
HdrInts == Hdr.ints
HdrDurs == Hdr.durs
HdrTimes == Hdr.times
HdrQStr == Rng(Hdr.qstr)
HdrBadJs == Rng(Hdr.badjs)
HdrMax == Hdr.max
HdrActs == Hdr.acts
HdrCondCodes == Hdr.codes
HdrOneShot == Rng(Hdr.oneshot)

VARIABLES mem, ro, impl, l
vars == <<mem, ro, impl, l>>

\* impl: [state, via, check, created] of the trace being validated

\* a cron tick is the event {"trigger!": id} sent to the job's location
OpOf(e) == [op |-> IF e.op = "Tick" THEN "ProcessEvent" ELSE e.op, loc |-> e.loc, id |-> e.id, rid |-> e.rid,
            val |-> IF e.op = "Tick" THEN Obj("trigger!" :> IdVal(e.id)) ELSE Norm(e.val),
            inh |-> e.inh, wk |-> e.wk, rk |-> e.rk, now |-> e.now, flag |-> e.flag,
            names |-> Rng(e.names), hooked |-> impl.via # ""]

NormFound(f) == {[id |-> f[i].id, bss |-> NormBs(f[i].bss), body |-> Norm(f[i].body)] : i \in DOMAIN f}
NoBody(F) == {[id |-> x.id, bss |-> x.bss] : x \in F}

RECURSIVE Flat(_, _, _)
\* values of the completed executions of a logged tree, as a sequence
Flat(tr, i, j) ==
  IF i > Len(tr) THEN <<>>
  ELSE IF j > Len(tr[i].execs) THEN Flat(tr, i + 1, 1)
  ELSE (IF tr[i].execs[j].ok THEN <<Norm(tr[i].execs[j].val)>> ELSE <<>>) \o Flat(tr, i, j + 1)
FlatVals(tr) == Flat(tr, 1, 1)

\* the logged work tree: per (rule, when-binding) node the condition outcome and the executions
LoggedNode(n) == [id |-> n.id, wb |-> NormB(n.wb), c |-> n.c,
                  execs |-> SeqBag([i \in DOMAIN n.execs |-> [b |-> NormB(n.execs[i].b), code |-> n.execs[i].code]])]
LoggedTree(tr) == {LoggedNode(tr[i]) : i \in DOMAIN tr}
\* every logged execution reports what its script does; `values` holds the results of the completed ones
ExecsOk(tr, writable) == \A i \in DOMAIN tr : \A j \in DOMAIN tr[i].execs :
                  LET x == tr[i].execs[j]
                  IN IF ExecFails(x.code, writable) THEN ~x.ok
                     ELSE x.ok /\ Norm(x.val) = ExecValue(x.code, NormB(x.b))
ValuesOk(lr) == SeqBag([i \in DOMAIN lr.vals |-> Norm(lr.vals[i])])
                = SeqBag(SelectSeq(FlatVals(lr.tree), LAMBDA v : TRUE))

RespMatch(op, r, lr) ==
  /\ r.c = lr.c
  /\ r.c = "ok" =>
       CASE op.op \in {"AddFact", "AddRule"} -> r.id = lr.id
         [] op.op \in {"GetFact", "GetRule"} -> r.val = Norm(lr.val)
         [] op.op = "SearchFacts" -> r.found = NormFound(lr.found)
         [] op.op = "ProcessEvent" -> /\ NoBody(r.found) = NoBody(NormFound(lr.found))
                                      /\ r.tree = LoggedTree(lr.tree)
                                      /\ ExecsOk(lr.tree, r.n = 1)
                                      /\ ValuesOk(lr)
         [] op.op \in {"ListRules", "SearchRules", "GetParents"} -> r.ids = Rng(lr.ids)
         [] op.op = "StateSize" -> r.n = lr.n
         [] OTHER -> TRUE

\* a generated id has to be new in its location
FreshOk(op, lr) ==
  (op.op \in {"AddFact", "AddRule"} /\ op.id = "" /\ lr.c = "ok" /\ BangKeys(op.val) = {})
     => op.rid \notin DOMAIN mem[op.loc]

NoImpl == [state |-> "", via |-> "", check |-> FALSE, created |-> {}, cronkind |-> ""]
Init == l = 2 /\ mem = <<>> /\ ro = <<>> /\ impl = NoImpl

Reset(e) ==
  /\ mem' = [a \in Rng(e.locs) |-> <<>>]
  /\ ro' = [a \in Rng(e.locs) |-> FALSE]
  /\ impl' = [state |-> e.state, via |-> e.via, check |-> e.check, created |-> {}, cronkind |-> e.cronkind]

\* the outcomes the specification allows whose response agrees with the logged line
RespExplained(e) ==
  LET op == OpOf(e)
      disk == [a \in DOMAIN mem |-> Rng(e.disk[a])]
      G == [a \in DOMAIN mem |-> ExpiredIds(mem[a], op.now) \ disk[a]]
      must == MustPurge(mem, op)
      \* an operation refused at the gate (wrong key, disabled location) never walks the state: it purges nothing
      refused == e.res.c \in {"denied", "disabled"}
  IN IF (refused \/ \A a \in DOMAIN mem : must[a] \subseteq G[a]) /\ FreshOk(op, e.res)
     THEN {o \in Step(mem, ro, op, G) : RespMatch(op, o.resp, e.res)}
     ELSE {}
DiskOk(m, e) == \A a \in DOMAIN mem : DOMAIN m[a] = Rng(e.disk[a])
\* C06: the images storage went through during the operation (one after each storage write): a crash
\* at that point leaves every id either as it was before the operation or as it is after it, so only
\* ids the operation changes can differ; the last image is exactly the state after the operation.
ImageOk(img, pre, post) ==
  \A a \in DOMAIN pre :
    \A id \in DOMAIN img[a] \cup DOMAIN pre[a] \cup DOMAIN post[a] :
      IF id \in DOMAIN img[a]
      THEN \/ id \in DOMAIN pre[a] /\ Norm(img[a][id]) = pre[a][id].body
           \/ id \in DOMAIN post[a] /\ Norm(img[a][id]) = post[a][id].body
      ELSE id \notin DOMAIN pre[a] \/ id \notin DOMAIN post[a]
FinalImageOk(img, post) ==
  \A a \in DOMAIN post : /\ DOMAIN img[a] = DOMAIN post[a]
                         /\ \A id \in DOMAIN post[a] : Norm(img[a][id]) = post[a][id].body
CrashOk(e, post) ==
  /\ \A k \in DOMAIN e.crashes : ImageOk(e.crashes[k], mem, post)
  /\ Len(e.crashes) > 0 => FinalImageOk(e.crashes[Len(e.crashes)], post)

\* C15: what is registered with the cron service (through sys.System).  Every scheduled rule that exists
\* has to be registered (CronHas); strictly, nothing else is (CronOnly): a registration that outlives its
\* rule is the recorded defect D_CRON_STALE.
SchedIn(m, ids) == {i \in ids : IsRuleItem(m[i]) /\ Scheduled(RuleBody(m[i]))}
RECURSIVE SumCard(_, _)
SumCard(f, D) == IF D = {} THEN 0 ELSE LET a == CHOOSE x \in D : TRUE IN Cardinality(f[a]) + SumCard(f, D \ {a})
CronHas(e, post) ==
  impl.via = "" \/
  LET req == [a \in DOMAIN post |-> SchedIn(post[a], Vis(post[a], e.now))]
  IN IF impl.cronkind = "internal" THEN e.cron_n >= SumCard(req, DOMAIN post)
     ELSE \A a \in DOMAIN post : req[a] \subseteq Rng(e.cron[a])
CronOnly(e, post) ==
  impl.via = "" \/
  LET all == [a \in DOMAIN post |-> SchedIn(post[a], DOMAIN post[a])]
  IN IF impl.cronkind = "internal" THEN e.cron_n <= SumCard(all, DOMAIN post)
     ELSE \A a \in DOMAIN post : Rng(e.cron[a]) \subseteq all[a]

\* ... and whose state agrees with the logged storage content
Explained(e) == {o \in RespExplained(e) : DiskOk(o.mem, e) /\ CrashOk(e, o.mem) /\ CronHas(e, o.mem)}

\* sys.System: with existence checking on, a location that was never created
\* answers not-found to every request and is not created by it; CreateLocation
\* stores the marker property (its timestamp value is taken from the trace).
Uncreated(e) == impl.check /\ e.op \notin {"CreateLocation", "BadRequest"}
                /\ PropId("", "createdAt") \notin DOMAIN mem[e.loc]
SysOutcomes(e) ==
  LET disk == [a \in DOMAIN mem |-> Rng(e.disk[a])]
  IN IF e.op = "Restart"
     THEN \* a new System over the same storage: nothing changes; with a cron that does not persist its
          \* jobs, every scheduled rule is registered again once its location is loaded
          IF e.res.c = "ok" /\ DiskOk(mem, e) /\ CronHas(e, mem)
          THEN {[mem |-> mem, ro |-> [a \in DOMAIN ro |-> FALSE], created |-> {}]} ELSE {}
     ELSE IF e.op = "CreateLocation"
     THEN LET marker == PropId("", "createdAt")
              m2 == IF marker \in DOMAIN mem[e.loc] THEN mem
                    ELSE SetLoc(mem, e.loc, PutItem(mem[e.loc], marker, Item(Norm(e.val), 0)))
          IN IF e.res.c = "ok" /\ (\A a \in DOMAIN mem : DOMAIN m2[a] = disk[a])
                /\ Norm(e.val) = PropFact("", "createdAt", Norm(e.val).m["!createdAt"])
             THEN {[mem |-> m2, ro |-> ro, created |-> impl.created \cup {e.loc}]} ELSE {}
     ELSE IF e.op = "Clear" /\ ~Uncreated(e)
     THEN \* clearing a created location keeps it created (a fresh marker)
          LET marker == PropId("", "createdAt")
              withMarker(o) == IF o.resp.c # "ok" THEN o.mem
                               ELSE SetLoc(o.mem, e.loc, PutItem(o.mem[e.loc], marker, Item(Norm(e.val), 0)))
          IN {[mem |-> withMarker(o), ro |-> o.ro, created |-> {}] :
                o \in {x \in RespExplained(e) :
                         /\ DiskOk(withMarker(x), e)
                         /\ x.resp.c = "ok" => Norm(e.val) = PropFact("", "createdAt", Norm(e.val).m["!createdAt"])}}
     ELSE IF e.res.c = "notfound" /\ (\A a \in DOMAIN mem : DOMAIN mem[a] = disk[a])
          THEN {[mem |-> mem, ro |-> ro, created |-> impl.created]} ELSE {}

\* what the specification expected instead (printed on rejection only)
Expected(e) ==
  LET op == OpOf(e)
      disk == [a \in DOMAIN mem |-> Rng(e.disk[a])]
      G == [a \in DOMAIN mem |-> ExpiredIds(mem[a], op.now) \ disk[a]]
  IN [mustPurge |-> MustPurge(mem, op), purged |-> G, fresh |-> FreshOk(op, e.res),
      allowed |-> {[resp |-> o.resp, ids |-> [a \in DOMAIN mem |-> DOMAIN o.mem[a]]] : o \in Step(mem, ro, op, G)}]

NextReset(i) ==
  IF \E j \in (i+1)..Len(Trace) : Trace[j].ev = "reset"
  THEN CHOOSE j \in (i+1)..Len(Trace) : Trace[j].ev = "reset" /\ \A k \in (i+1)..(j-1) : Trace[k].ev # "reset"
  ELSE Len(Trace) + 1

IsSysLevel(e) == e.op \in {"CreateLocation", "Restart"} \/ Uncreated(e) \/ (impl.check /\ e.op = "Clear")

\* C06: a failing storage call makes the operation report an error; what memory and storage hold
\* afterwards is not specified, so the driver ends the trace there
\* An operation that only reads writes to storage just to purge what it finds expired.  When that
\* write is the one made to fail, the answer is still the right one and nothing the caller was told
\* depends on the write (the expired item stays in storage, invisible as before): the sentence "the
\* operation reports an error rather than success" is about changes the caller asked for.
\* An event writes only through what its rules do (actions that call Env.AddFact, the removal of a one-shot
\* rule after a tick); where no stored rule has such an action and the event is no tick, it only reads.
PureEvent(e) ==
  /\ e.op = "ProcessEvent" /\ ~Has(Norm(e.val), "trigger!")
  /\ \A a \in DOMAIN mem : \A i \in DOMAIN mem[a] :
        IsRuleItem(mem[a][i]) =>
          \A act \in ActionsOf(RuleBody(mem[a][i])) :
             ActionCode(act) \in DOMAIN Acts => Acts[ActionCode(act)].kind # "addfact"
ReadOnlyOp(e) == e.op \in {"SearchFacts", "SearchRules", "ListRules", "GetFact", "GetRule", "GetParents", "StateSize"} \/ PureEvent(e)
\* The same for any operation when the write that failed was the removal of an item that had expired
\* before the operation began (a purge the operation came across, not a change it was asked for) ...
PurgeFault(e) ==
  /\ e.fault_kind = "remove" /\ e.fault_loc \in DOMAIN mem
  /\ e.fault_key \in ExpiredIds(mem[e.fault_loc], e.now)
\* ... and for an event whose failed write was made by one of its actions (Env.AddFact): the failure is
\* reported where actions report, on the action's node
ActionFault(e) ==
  /\ e.op \in {"ProcessEvent", "Tick"} /\ e.fault_kind = "add"
  /\ \E i \in DOMAIN e.res.tree : \E j \in DOMAIN e.res.tree[i].execs :
        LET x == e.res.tree[i].execs[j]
        IN ~x.ok /\ x.code \in DOMAIN Acts /\ Acts[x.code].kind = "addfact"
FaultExcused(e) == ReadOnlyOp(e) \/ PurgeFault(e) \/ ActionFault(e)
AcceptFault(e) ==
  /\ e.fault
  /\ e.res.c # "ok" \/ FaultExcused(e)
  /\ UNCHANGED <<mem, ro, impl>> /\ l' = l + 1

Accept(e) ==
  /\ ~e.fault
  /\ ~IsSysLevel(e)
  /\ \E o \in Explained(e) : CronOnly(e, o.mem) /\ mem' = o.mem /\ ro' = o.ro
  /\ l' = l + 1 /\ UNCHANGED impl

\* The recorded defect D_CRON_STALE is about rules that disappear WITHOUT an explicit removal of their id
\* (cascade, expiry, Clear, overwrite).  An explicit, acknowledged RemRule / RemFact of an id that held a
\* scheduled rule must withdraw the registration; a registration left behind by that is not the recorded defect.
StaleOk(e) ==
  (e.op \in {"RemRule", "RemFact"} /\ e.res.c = "ok" /\ impl.via # "" /\ impl.cronkind # "internal"
     /\ e.id \in SchedIn(mem[e.loc], Vis(mem[e.loc], e.now)))
  => e.id \notin Rng(e.cron[e.loc])

\* explained, except that a registration has outlived its rule
AcceptStale(e) ==
  /\ ~e.fault
  /\ ~IsSysLevel(e)
  /\ StaleOk(e)
  /\ Explained(e) # {} /\ \A o \in Explained(e) : ~CronOnly(e, o.mem)
  /\ \E o \in Explained(e) : /\ mem' = o.mem /\ ro' = o.ro
                               /\ TLCSet(3, TLCGet(3) \cup {<<l, "D_CRON_STALE">>})
  /\ l' = l + 1 /\ UNCHANGED impl

AcceptSys(e) ==
  /\ ~e.fault
  /\ IsSysLevel(e)
  /\ \E o \in SysOutcomes(e) : mem' = o.mem /\ ro' = o.ro /\ impl' = [impl EXCEPT !.created = o.created]
  /\ l' = l + 1

\* outcomes that only a named deviation (a recorded defect) explains
ExplainedDev(e) ==
  LET op == OpOf(e)
      disk == [a \in DOMAIN mem |-> Rng(e.disk[a])]
      G == [a \in DOMAIN mem |-> ExpiredIds(mem[a], op.now) \ disk[a]]
  IN {o \in DevStep(mem, ro, op, G, impl.state) :
        RespMatch(op, o.resp, e.res) /\ \A a \in DOMAIN mem : DOMAIN o.mem[a] = disk[a]}

AcceptDev(e) ==
  /\ ~e.fault
  /\ ~IsSysLevel(e)
  /\ Explained(e) = {} /\ ExplainedDev(e) # {}
  /\ \E o \in ExplainedDev(e) : /\ mem' = o.mem /\ ro' = o.ro
                                 /\ TLCSet(3, TLCGet(3) \cup {<<l, o.dev>>})
  /\ l' = l + 1 /\ UNCHANGED impl

\* a line nothing explains: report it and go on with the next trace
Reject(e) ==
  /\ IF e.fault THEN e.res.c = "ok" /\ ~FaultExcused(e)
     ELSE IF IsSysLevel(e) THEN SysOutcomes(e) = {}
     ELSE \/ Explained(e) = {} /\ ExplainedDev(e) = {}
          \/ Explained(e) # {} /\ (\A o \in Explained(e) : ~CronOnly(e, o.mem)) /\ ~StaleOk(e)
  /\ PrintT(<<"REJECT", l, IF IsSysLevel(e) THEN <<"system level", impl>> ELSE Expected(e)>>)
  /\ TLCSet(2, TLCGet(2) \cup {l})
  /\ mem' = <<>> /\ ro' = <<>> /\ impl' = NoImpl
  /\ l' = NextReset(l)

Next ==
  /\ l <= Len(Trace)
  /\ \/ Trace[l].ev = "reset" /\ Reset(Trace[l]) /\ l' = l + 1
     \/ Trace[l].ev = "op" /\ Accept(Trace[l])
     \/ Trace[l].ev = "op" /\ AcceptDev(Trace[l])
     \/ Trace[l].ev = "op" /\ AcceptSys(Trace[l])
     \/ Trace[l].ev = "op" /\ AcceptStale(Trace[l])
     \/ Trace[l].ev = "op" /\ AcceptFault(Trace[l])
     \/ Trace[l].ev = "op" /\ Reject(Trace[l])

Spec == Init /\ [][Next]_vars

\* acceptance: the whole file was consumed (high-water mark of l)
ASSUME TLCSet(1, 0) /\ TLCSet(2, {}) /\ TLCSet(3, {})
Mark == TLCSet(1, IF TLCGet(1) < l THEN l ELSE TLCGet(1))
Accepted ==
  /\ PrintT(<<"CONSUMED", TLCGet(1) - 1, "OF", Len(Trace), "REJECTED", TLCGet(2), "DEVIATIONS", TLCGet(3)>>)
  /\ TLCGet(1) = Len(Trace) + 1
  /\ TLCGet(2) = {}
=============================================================================
