SPECIFICATION Spec
CONSTANTS
  Shapes <- ShapesQuick
  Budgets <- BudgetsQuick
  MaxCalls = 2
INVARIANTS ExactlyOnce AtMostOncePerCall ConcurrentSiblingsRun SerialPrefix ReturnTellsFailure ResumeKeepsComplete ValuesGrow
VIEW View
CHECK_DEADLOCK FALSE
