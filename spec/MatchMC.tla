------------------------------- MODULE MatchMC -------------------------------
(***************************************************************************)
(* Model check of Match.tla itself: on a bounded universe of (pattern,     *)
(* data) pairs the fold-style MatchB equals the declarative definition of  *)
(* the manual: the set of bindings b over the pattern's variables such     *)
(* that the pattern can be laid over the data with every variable position *)
(* holding exactly b's value (maps: extra keys allowed; arrays: injective  *)
(* placement, extra elements allowed).                                     *)
(***************************************************************************)
EXTENDS Match

CONSTANT Big   \* TRUE: the larger universe

VARIABLES p, d

RECURSIVE Lay(_, _, _), LayArr(_, _, _)
Lay(pp, dd, b) ==
  CASE pp.k = "v" -> b[pp.a] = dd
    [] pp.k = "m" -> /\ dd.k = "m" /\ DOMAIN pp.m \subseteq DOMAIN dd.m
                     /\ \A f \in DOMAIN pp.m : Lay(pp.m[f], dd.m[f], b)
    [] pp.k = "l" -> dd.k = "l" /\ LayArr(pp.l, dd.l, b)
    [] OTHER -> pp = dd
LayArr(ps, ds, b) ==
  \/ ps = {}
  \/ LET pe == CHOOSE x \in ps : TRUE
     IN \E de \in ds : Lay(pe, de, b) /\ LayArr(ps \ {pe}, ds \ {de}, b)

RECURSIVE SubVals(_)
SubVals(x) == {x} \cup (IF x.k = "m" THEN UNION {SubVals(x.m[f]) : f \in DOMAIN x.m}
                        ELSE IF x.k = "l" THEN UNION {SubVals(e) : e \in x.l} ELSE {})

Decl(pp, dd) == {b \in [VarsOf(pp) -> SubVals(dd)] : Lay(pp, dd, b)}

O1(k, v) == Obj(k :> v)
O2(k1, v1, k2, v2) == Obj((k1 :> v1) @@ (k2 :> v2))

DVals == {Num(1), Str("x"), BoolV(TRUE), Null, Arr({Num(1), Str("x")}), Arr({}), O1("n", Num(1)), EmptyObj}
         \cup (IF Big THEN {Arr({Str("x")}), O2("n", Str("x"), "m", Num(1)), Arr({O1("n", Num(1)), O1("n", Str("x"))})} ELSE {})
PVals == {Num(1), Str("x"), Null, Arr({}), EmptyObj, Var("?x"), Var("?y"), Arr({Var("?x")}), Arr({Num(1), Var("?x")}),
          O1("n", Var("?x"))}
         \cup (IF Big THEN {BoolV(TRUE), Arr({Num(1), Str("x")}), O1("n", Num(1)), Arr({Str("x"), Var("?y")}),
                            O2("n", Var("?y"), "m", Var("?x")), Arr({O1("n", Var("?x"))}),
                            Arr({O1("n", Var("?x")), O1("n", Var("?y"))})} ELSE {})

MapsOver(V) == {EmptyObj} \cup {O1("a", v) : v \in V} \cup {O1("b", v) : v \in V}
               \cup {O2("a", v, "b", w) : v \in V, w \in V}

Init == p \in MapsOver(PVals) /\ d \in MapsOver(DVals)
Next == UNCHANGED <<p, d>>
Spec == Init /\ [][Next]_<<p, d>>

\* the fold computes the declarative set
MatchIsDeclarative == Match(p, d) = Decl(p, d)
\* and the named deviation only ever adds bindings
DevIsSuperset == Match(p, d) \subseteq DevMatchB(p, d, <<>>)
=============================================================================
