----------------------------- MODULE WorkWalkTrace -----------------------------
(* Recorded calls of the real core.Location.WorkWalk (harness/cmd/walkdrv: fresh trees as
   ProcessEvent builds them, the same tree walked again as RetryEventWork does, other step
   budgets, conditions and actions that fail or stop failing between the calls, rules disabled
   between the calls) against WorkWalk.tla: the tree the call left behind, the executions a probe
   inside the scripts counted during the call, Values and the returned disposition must be one
   of the final states of the specification's visits from the state before the call. *)
EXTENDS WorkWalk, Json, IOUtils

Trace == ndJsonDeserialize(IOEnv.TRACE)
VARIABLES l, s, sh
tvars == <<l, s, sh>>

Rng(q) == {q[i] : i \in 1..Len(q)}
EnvOf(shape, ev) ==
  [rules |-> Rng(shape.rules), live |-> Rng(ev.live), nw |-> shape.nw, nc |-> shape.nc, na |-> shape.na,
   serial |-> shape.serial, condFail |-> Rng(ev.condFail), actFail |-> {<<x[1], x[2]>> : x \in Rng(ev.actFail)}]
P(shape, t) == (t.c - 1) * shape.na[t.r] + t.ai
ActTags(shape, q) == [i \in 1..Len(q) |-> Tag(q[i].r, q[i].w, P(shape, q[i]))]
CondTags(q) == [i \in 1..Len(q) |-> [r |-> q[i].r, w |-> q[i].w]]

FitsNode(shape, r, ok, ek) ==
  /\ ok.w = ek.w /\ ok.d = ek.d /\ Len(ok.acts) = Len(ek.acts)
  /\ \A p \in 1..Len(ok.acts) :
       /\ ok.acts[p] = ek.acts[p].d
       /\ ek.acts[p].w = ek.w /\ P(shape, [r |-> r, c |-> ek.acts[p].c, ai |-> ek.acts[p].ai]) = p
       /\ ek.acts[p].ai \in 1..shape.na[r]
Fits(shape, o, ev) ==
  /\ o.pc.d = ev.ret
  /\ o.frD = ev.tree.frD
  /\ o.order = ev.tree.order
  /\ \A r \in Rng(shape.rules) :
       /\ o.er[r].d = ev.tree.er[r].d
       /\ o.done[r] = ev.tree.done[r]
       /\ Len(o.er[r].kids) = Len(ev.tree.er[r].kids)
       /\ ev.tree.er[r].present => o.er[r].bss = ev.tree.er[r].bss
       /\ \A j \in 1..Len(o.er[r].kids) : FitsNode(shape, r, o.er[r].kids[j], ev.tree.er[r].kids[j])
  /\ ev.badvalues = 0
  /\ SameBag(o.values, ActTags(shape, ev.values))
  /\ SameBag(o.execs, ActTags(shape, ev.execs))
  /\ SameBag(o.cexecs, CondTags(ev.cexecs))

NextReset(i) ==
  IF \E j \in (i+1)..Len(Trace) : Trace[j].ev = "reset"
  THEN CHOOSE j \in (i+1)..Len(Trace) : Trace[j].ev = "reset" /\ \A k \in (i+1)..(j-1) : Trace[k].ev # "reset"
  ELSE Len(Trace) + 1

NoShape == [rules |-> <<>>]
Init == l = 1 /\ s = <<>> /\ sh = NoShape
Next ==
  /\ l <= Len(Trace)
  /\ LET ev == Trace[l] IN
       IF ev.ev = "reset"
       THEN /\ sh' = ev.shape /\ l' = l + 1
            /\ s' = Blank([rules |-> Rng(ev.shape.rules)])
       ELSE LET env == EnvOf(sh, ev)
                start == IF ev.op = "process" THEN Blank(env) ELSE s
                F == Finals(start, ev.steps, env)
            IN IF \E o \in F : Fits(sh, o, ev)
               THEN \E o \in F : Fits(sh, o, ev) /\ s' = o /\ l' = l + 1 /\ UNCHANGED sh
               ELSE /\ PrintT(<<"REJECT", l, ev, "allowed", {<<o.pc.d, o.order, o.er, o.done, o.values, o.execs, o.cexecs>> : o \in F}>>)
                    /\ TLCSet(2, TLCGet(2) \cup {l})
                    /\ l' = NextReset(l) /\ UNCHANGED <<s, sh>>
Spec == Init /\ [][Next]_tvars

ASSUME TLCSet(1, 0) /\ TLCSet(2, {}) /\ TLCSet(3, {})
Mark == TLCSet(1, IF TLCGet(1) < l THEN l ELSE TLCGet(1))
Accepted ==
  /\ PrintT(<<"CONSUMED", TLCGet(1) - 1, "OF", Len(Trace), "REJECTED", TLCGet(2), "DEVIATIONS", TLCGet(3)>>)
  /\ TLCGet(1) = Len(Trace) + 1
  /\ TLCGet(2) = {}
=============================================================================
