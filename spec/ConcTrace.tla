------------------------------- MODULE ConcTrace -------------------------------
(***************************************************************************)
(* C12 (and C11): linearizability of recorded concurrent histories against *)
(* Engine.  A round is a sequence of "call" and "ret" lines in the real-    *)
(* time order in which they happened (a global sequence number taken under *)
(* one lock), closed by a "final" line with what the location and its      *)
(* storage hold afterwards.  Between a call's line and its return's line   *)
(* the operation takes effect at one instant: the silent step Lin.  TLC    *)
(* accepts a round iff some choice of those instants makes every logged    *)
(* result one that Engine!Step allows and ends in the logged final state.  *)
(***************************************************************************)
EXTENDS Engine, Json, IOUtils

Trace == ndJsonDeserialize(IOEnv.TRACE)
Hdr == Trace[1]
Rng(s) == {s[i] : i \in DOMAIN s}
HdrBang == Hdr.bang
HdrInts == Hdr.ints
HdrDurs == Hdr.durs
HdrTimes == Hdr.times
HdrQStr == Rng(Hdr.qstr)
HdrBadJs == Rng(Hdr.badjs)
HdrMax == Hdr.max
HdrActs == Hdr.acts
HdrCondCodes == Hdr.codes
HdrOneShot == Rng(Hdr.oneshot)

CONSTANT AllowDev   \* TRUE: also try the named deviation(s) below (only used to classify a round the strict run rejects)

VARIABLES mem,   \* the specification's state of the locations of the round
          pend,  \* called, not yet taken effect:   <<g, k>> -> operation
          lin,   \* taken effect, not yet returned: <<g, k>> -> [op, resp]
          via,   \* how the round's requests were made: "" (core.Location), "system", "http"
          half,  \* deviation only: events that have found their rules but not yet checked the disable flags
          ttl,   \* the round's location-cache TTL ("" when the requests do not go through a System)
          l
vars == <<mem, pend, lin, via, half, ttl, l>>

Locs == {"A", "B", "C", "D"}
NoG(m) == [a \in DOMAIN m |-> {}]
Ro(m) == [a \in DOMAIN m |-> FALSE]

OpOf(e) == [op |-> e.op, loc |-> e.loc, id |-> e.id, rid |-> e.rid, val |-> Norm(e.val),
            inh |-> e.inh, wk |-> e.wk, rk |-> e.rk, now |-> e.now, flag |-> e.flag,
            names |-> Rng(e.names), hooked |-> via # ""]

NormFound(f) == {[id |-> f[i].id, bss |-> NormBs(f[i].bss)] : i \in DOMAIN f}
NoBody(F) == {[id |-> x.id, bss |-> x.bss] : x \in F}
\* the logged work tree: per (rule, when-binding) node the condition outcome and the executions (as in EngineTrace)
LoggedNode(n) == [id |-> n.id, wb |-> NormB(n.wb), c |-> n.c,
                  execs |-> SeqBag([i \in DOMAIN n.execs |-> [b |-> NormB(n.execs[i].b), code |-> n.execs[i].code]])]
LoggedTree(tr) == {LoggedNode(tr[i]) : i \in DOMAIN tr}
\* an event is judged on the rules it found AND on what it ran for them: the actions are those of the rule as
\* it stands at the event's instant (a parsed rule that outlives its replacement shows here)
RespMatch(op, r, lr, whole) ==
  /\ r.c = lr.c
  /\ r.c = "ok" =>
       CASE op.op \in {"AddFact", "AddRule"} -> r.id = lr.id
         [] op.op \in {"GetFact", "GetRule"} -> r.val = Norm(lr.val)
         [] op.op = "SearchFacts" -> NoBody(r.found) = NormFound(lr.found)
         [] op.op = "ProcessEvent" -> /\ NoBody(r.found) = NormFound(lr.found)
                                      /\ whole => r.tree = LoggedTree(lr.tree)
         [] OTHER -> TRUE

Without1(f, key) == [x \in DOMAIN f \ {key} |-> f[x]]

Init == l = 2 /\ mem = <<>> /\ pend = <<>> /\ lin = <<>> /\ via = "" /\ half = <<>> /\ ttl = ""

Round(e) == /\ e.ev = "round"
            /\ mem' = [a \in Rng(e.locs) |-> <<>>] /\ pend' = <<>> /\ lin' = <<>> /\ via' = e.via /\ half' = <<>> /\ ttl' = e.ttl /\ l' = l + 1
Call(e) == /\ e.ev = "call"
           /\ pend' = pend @@ (<<e.g, e.k>> :> OpOf(e))
           /\ l' = l + 1 /\ UNCHANGED <<mem, lin, via, half, ttl>>
\* the instant at which a pending operation takes effect
Lin == \E key \in DOMAIN pend :
          \E o \in Step(mem, Ro(mem), pend[key], NoG(mem)) :
             /\ mem' = o.mem
             /\ lin' = lin @@ (key :> [op |-> pend[key], resp |-> o.resp, whole |-> TRUE])
             /\ pend' = Without1(pend, key)
             /\ UNCHANGED <<l, via, half, ttl>>
Ret(e) == /\ e.ev = "ret"
          /\ <<e.g, e.k>> \in DOMAIN lin
          /\ RespMatch(lin[<<e.g, e.k>>].op, lin[<<e.g, e.k>>].resp, e.res, lin[<<e.g, e.k>>].whole)
          /\ lin' = Without1(lin, <<e.g, e.k>>)
          /\ l' = l + 1 /\ UNCHANGED <<mem, pend, via, half, ttl>>
\* everything has returned: memory and storage agree with the order chosen
Final(e) == /\ e.ev = "final"
            /\ DOMAIN pend = {} /\ DOMAIN lin = {}
            /\ \A a \in DOMAIN mem : /\ DOMAIN mem[a] = Rng(e.disk[a])
                                     /\ \A id \in DOMAIN mem[a] : id \in DOMAIN e.mem[a] /\ Norm(e.mem[a][id]) = mem[a][id].body
                                     /\ DOMAIN e.mem[a] \subseteq DOMAIN mem[a]
            /\ DOMAIN half = {}
            \* C17, single load: a location that stays cached (TTL forever) was loaded once, however many
            \* first requests arrived together (newlocs: instances the System has made in this round)
            /\ (via # "" /\ ttl = "forever" /\ e.newlocs >= 0) => e.newlocs <= Cardinality(DOMAIN mem)
            /\ l' = l + 1 /\ UNCHANGED <<mem, pend, lin, via, half, ttl>>

\* Named deviation D_EVENT_NOT_ATOMIC (known finding, C12): ProcessEvent finds the matching rules under the
\* state lock, releases it, and only then looks up each rule's disable flag; a rule that is disabled and is
\* removed (flag and all) in between is dispatched although it never was enabled.  Two instants instead of one.
Find1 == \E key \in DOMAIN pend :
           /\ AllowDev /\ pend[key].op = "ProcessEvent" /\ ~Has(pend[key].val, "trigger!")
           /\ LET op == pend[key]
                  vs == VisitSet(mem, op.now, op.loc, TRUE)
                  cands == UNION {{[id |-> i, bss |-> Match(WhenPattern(RuleBody(mem[a][i])), op.val), body |-> RuleBody(mem[a][i])] :
                                     i \in MatchingRules(mem[a], op.now, op.val)} : a \in vs.locs}
              IN /\ ~vs.err
                 /\ half' = half @@ (key :> [op |-> op, cands |-> cands, locs |-> vs.locs])
                 /\ pend' = Without1(pend, key)
           /\ UNCHANGED <<mem, lin, via, l, ttl>>
Check2 == \E key \in DOMAIN half :
            /\ LET op == half[key].op
                   found == {c \in half[key].cands : ~RuleDisabled(mem[op.loc], op.now, c.id)}
                   \* what is run is the rule as it was found (first instant), conditions on the facts of the second
                   tree == UNION {RuleNodes(mem, op.now, op.loc, half[key].locs, op.val, c.id, c.body, c.bss) : c \in found}
               IN lin' = lin @@ (key :> [op |-> op, whole |-> TRUE,
                                         resp |-> [R0 EXCEPT !.found = {[id |-> c.id, bss |-> c.bss, body |-> Null] : c \in found}, !.tree = tree]])
            /\ half' = Without1(half, key)
            /\ UNCHANGED <<mem, pend, via, l, ttl>>

Next == \/ (l <= Len(Trace) /\ (Round(Trace[l]) \/ Call(Trace[l]) \/ Ret(Trace[l]) \/ Final(Trace[l])))
        \/ (l <= Len(Trace) /\ (Lin \/ Find1 \/ Check2))
Spec == Init /\ [][Next]_vars

ASSUME TLCSet(1, 0)
Mark == TLCSet(1, IF TLCGet(1) < l THEN l ELSE TLCGet(1))
Accepted == /\ PrintT(<<"CONSUMED", TLCGet(1) - 1, "OF", Len(Trace), "REJECTED", {}, "DEVIATIONS", {}>>)
            /\ TLCGet(1) = Len(Trace) + 1
=============================================================================
