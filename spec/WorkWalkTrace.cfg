SPECIFICATION Spec
CONSTRAINT Mark
POSTCONDITION Accepted
CHECK_DEADLOCK FALSE
