------------------------------- MODULE StatsTrace -------------------------------
(***************************************************************************)
(* The System's own counters (core.ServiceStats) as history variables,     *)
(* checked on the traces of seeded histories through sys.System (the lines *)
(* carry the counters after each operation).  Beyond the listed properties *)
(* (bin/extras).                                                           *)
(*   - every request is counted: TotalCalls grows by at least one (loads   *)
(*     of locations count as calls of their own);                          *)
(*   - the counter of the request's kind grows by exactly one, every other *)
(*     kind's counter stays (a cron tick is an event);                     *)
(*   - a request that fails is counted as an error (events report failures *)
(*     on their nodes instead); counters never go down;                    *)
(*   - a restart is a new System: counters start again.                    *)
(***************************************************************************)
EXTENDS Integers, Sequences, Json, IOUtils, TLC

Trace == ndJsonDeserialize(IOEnv.TRACE)
VARIABLES l, prev
Kinds == {"AddFact", "RemFact", "GetFact", "SearchFacts", "AddRule", "RemRule", "GetRule", "SearchRules", "ListRules", "ProcessEvent"}
Zero == [k \in Kinds \cup {"calls", "errors", "newlocs"} |-> 0]
KindOf(e) == IF e.op = "Tick" THEN "ProcessEvent" ELSE e.op

Ok(e) ==
  LET s == e.stats IN
  /\ s.calls >= prev.calls + 1
  /\ \A k \in Kinds : s[k] = prev[k] + (IF k = KindOf(e) THEN 1 ELSE 0)
  /\ s.errors >= prev.errors /\ s.newlocs >= prev.newlocs
  /\ (e.res.c # "ok" /\ KindOf(e) # "ProcessEvent") => s.errors >= prev.errors + 1

HasStats(e) == "stats" \in DOMAIN e
Init == l = 2 /\ prev = Zero
Next ==
  /\ l <= Len(Trace)
  /\ LET e == Trace[l] IN
       IF e.ev = "reset" THEN prev' = Zero
       ELSE IF ~HasStats(e) THEN UNCHANGED prev
       ELSE IF e.op = "Restart" THEN prev' = e.stats
       ELSE /\ prev' = e.stats
            /\ IF Ok(e) THEN TRUE ELSE PrintT(<<"REJECT", l, e.op, e.res.c, "before", prev, "after", e.stats>>) /\ TLCSet(2, TLCGet(2) \cup {l})
  /\ l' = l + 1
Spec == Init /\ [][Next]_<<l, prev>>

ASSUME TLCSet(1, 0) /\ TLCSet(2, {}) /\ TLCSet(3, {})
Mark == TLCSet(1, IF TLCGet(1) < l THEN l ELSE TLCGet(1))
Accepted ==
  /\ PrintT(<<"CONSUMED", TLCGet(1) - 1, "OF", Len(Trace), "REJECTED", TLCGet(2), "DEVIATIONS", TLCGet(3)>>)
  /\ TLCGet(1) = Len(Trace) + 1
  /\ TLCGet(2) = {}
=============================================================================
