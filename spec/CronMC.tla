--------------------------------- MODULE CronMC ---------------------------------
(* Bounded exploration of Cron: every interleaving of two clients' Add / Rem /
   replace with the loop, the running functions and suspend/resume. *)
EXTENDS Cron

CONSTANTS Ids, MaxTime, Period, MaxGen

VARIABLE gen
mcvars == <<vars, gen>>

Occurrence(t) == ((t \div Period) + 1) * Period     \* the cron expression's next time after t

MCInit == InitWith(Ids) /\ gen = 0
MCNext ==
  \/ now < MaxTime /\ Advance(now + 1) /\ UNCHANGED gen
  \/ TimerFires /\ UNCHANGED <<gen, now>>
  \/ \E i \in Ids, d \in 0..2, r \in BOOLEAN :
        /\ gen < MaxGen /\ gen' = gen + 1
        /\ Add([id |-> i, g |-> gen + 1, next |-> IF r THEN Occurrence(now) ELSE now + d, rec |-> r])
        /\ UNCHANGED now
  \/ \E i \in Ids : RemId(i) /\ UNCHANGED <<gen, now>>
  \/ \E j \in running : (Rearm(j, Occurrence(now)) \/ Finish(j)) /\ UNCHANGED <<gen, now>>
  \/ (Suspend \/ Resume) /\ UNCHANGED <<gen, now>>
MCSpec == MCInit /\ [][MCNext]_mcvars
=============================================================================
