------------------------------ MODULE JsWatchdog ------------------------------
(***************************************************************************)
(* core.RunJavascript's timeout protocol: the goroutine that runs the      *)
(* script ("runner") and the watchdog goroutine that interrupts it.        *)
(*                                                                         *)
(*   runner:   run the script; on return or panic run the deferred calls:  *)
(*             D2 "tell the watchdog we are done" (send on cleanup),       *)
(*             D1 "recover a Halt panic and report the time-out".          *)
(*   watchdog: select { timer fires -> put the halting function into the   *)
(*             interrupt channel (capacity 1); cleanup received -> done }  *)
(*                                                                         *)
(* Buffered = FALSE is the protocol as first found (cleanup unbuffered,    *)
(* recovered Halt returns the zero results): TLC shows the runner blocks   *)
(* for ever in D2 once the timer has fired, and a recovered Halt would     *)
(* report (nil, nil), i.e. success.  Buffered = TRUE is the repaired       *)
(* protocol the code has to follow.                                        *)
(***************************************************************************)
EXTENDS Naturals

CONSTANTS Class,      \* "value" | "throw" | "loop" (never finishes by itself) | "slow" (finishes, possibly after the limit)
          HasTimeout, \* a time limit is configured
          Buffered    \* cleanup channel has capacity 1 and a recovered Halt is reported as an error

VARIABLES rpc, wpc, intr, cleanup, outcome, result
vars == <<rpc, wpc, intr, cleanup, outcome, result>>

Init == /\ rpc = "run" /\ wpc = IF HasTimeout THEN "select" ELSE "none"
        /\ intr = 0 /\ cleanup = 0 /\ outcome = "none" /\ result = "none"

\* ---- runner ----
Finish == /\ rpc = "run" /\ Class \in {"value", "slow", "throw"}
          /\ outcome' = IF Class = "throw" THEN "error" ELSE "value"
          /\ rpc' = IF HasTimeout THEN "d2" ELSE "d1"
          /\ UNCHANGED <<wpc, intr, cleanup, result>>
\* the interpreter polls the interrupt channel while the script runs
Interrupted == /\ rpc = "run" /\ intr = 1 /\ Class \in {"loop", "slow"}
               /\ intr' = 0 /\ outcome' = "halt" /\ rpc' = "d2"
               /\ UNCHANGED <<wpc, cleanup, result>>
\* D2: send on the cleanup channel
TellWatchdog ==
  /\ rpc = "d2"
  /\ IF Buffered
     THEN cleanup' = 1 /\ UNCHANGED wpc
     ELSE wpc = "select" /\ wpc' = "done" /\ UNCHANGED cleanup   \* rendezvous: needs the watchdog to be receiving
  /\ rpc' = "d1" /\ UNCHANGED <<intr, outcome, result>>
\* D1: recover
Report == /\ rpc = "d1"
          /\ result' = IF outcome = "halt" THEN (IF Buffered THEN "error" ELSE "nilnil") ELSE outcome
          /\ rpc' = "done" /\ UNCHANGED <<wpc, intr, cleanup, outcome>>

\* ---- watchdog ----
TimerFires == /\ wpc = "select" /\ HasTimeout
              /\ intr' = 1 /\ wpc' = "done"
              /\ UNCHANGED <<rpc, cleanup, outcome, result>>
GetCleanup == /\ wpc = "select" /\ Buffered /\ cleanup = 1
              /\ cleanup' = 0 /\ wpc' = "done"
              /\ UNCHANGED <<rpc, intr, outcome, result>>

Next == Finish \/ Interrupted \/ TellWatchdog \/ Report \/ TimerFires \/ GetCleanup
        \/ (rpc = "done" /\ UNCHANGED vars)

\* the timer is a real clock: it does fire if the watchdog keeps waiting; the runner's own steps are fair
Spec == Init /\ [][Next]_vars /\ WF_vars(Finish) /\ WF_vars(Interrupted) /\ WF_vars(TellWatchdog)
             /\ WF_vars(Report) /\ WF_vars(TimerFires) /\ WF_vars(GetCleanup)

\* C14: the caller gets control back (with a limit configured, or when the script finishes by itself)
Returns == (HasTimeout \/ Class # "loop") => <>(rpc = "done")
\* C14: what is reported
Outcome == rpc = "done" =>
             /\ Class = "value" => result = "value"
             /\ Class = "throw" => result = "error"
             /\ Class = "loop" => result = "error"
             /\ Class = "slow" => result \in {"value", "error"}
             /\ result # "nilnil"
=============================================================================
