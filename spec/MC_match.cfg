SPECIFICATION Spec
CONSTANTS
  Big = FALSE
  QStr = {"?x", "?y"}
INVARIANTS MatchIsDeclarative DevIsSuperset
CHECK_DEADLOCK FALSE
