SPECIFICATION Spec
CONSTANTS
  Class = "throw"
  HasTimeout = TRUE
  Buffered = TRUE
INVARIANT Outcome
PROPERTY Returns
