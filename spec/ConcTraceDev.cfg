SPECIFICATION Spec
CONSTANTS
  AllowDev = TRUE
  Bang <- HdrBang
  Ints <- HdrInts
  Durs <- HdrDurs
  Times <- HdrTimes
  QStr <- HdrQStr
  BadJs <- HdrBadJs
  MaxFacts <- HdrMax
  Acts <- HdrActs
  CondCodes <- HdrCondCodes
  OneShot <- HdrOneShot
CONSTRAINT Mark
POSTCONDITION Accepted
CHECK_DEADLOCK FALSE
