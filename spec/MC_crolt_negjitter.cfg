SPECIFICATION Spec
CONSTANTS
  Aids = {"a,1", "b,1"}
  Clients = {"c1", "c2"}
  MaxTime = 5
  TTL = 1
  Period = 2
  MaxGen = 3
  AtomicAdd = TRUE
  Jitter <- JitterNeg
INVARIANTS BucketsAgree NoEarlyFire OncePerOccurrence NotBeforeOccurrence
CHECK_DEADLOCK FALSE
