SPECIFICATION Spec
CONSTANTS
  Family = "parents"
  Locs = {"A", "B"}
  Ids = {"f1", "r1"}
  MaxNow = 0
  MaxOps = 3
  T0 = 1000
  MaxFacts = 3
  Bang <- McBang
  Ints <- McInts
  Durs <- McDurs
  Times <- McTimes
  QStr <- McQStr
  BadJs <- McBadJs
  Acts <- McActs
  CondCodes <- McCondCodes
  OneShot <- McOneShot
VIEW View
INVARIANTS NeverSeenAfter RefusalHarmless DispatchSound
CHECK_DEADLOCK FALSE
