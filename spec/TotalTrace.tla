------------------------------ MODULE TotalTrace ------------------------------
(***************************************************************************)
(* C13: what the real code did with each document of Totality!Docs used as *)
(* fact, rule, pattern, query or event, and with the canary protocol that  *)
(* follows on the same location.  Every call has to come back (no hang)    *)
(* without panicking; the unusual call may answer ok or an error; the      *)
(* canary calls have to give exactly what Engine specifies for them.       *)
(***************************************************************************)
EXTENDS JsonVal, Json, IOUtils

Trace == ndJsonDeserialize(IOEnv.TRACE)
VARIABLE l

O2(k1, v1, k2, v2) == Obj((k1 :> v1) @@ (k2 :> v2))
CanaryFact == O2("canary", Str("yes"), "n", Num(1))
Names == <<"weird", "c-add", "c-get", "c-search", "c-addrule", "c-event", "c-remrule", "c-remfact", "c-gone">>

Has1(found, id, b) == \E i \in DOMAIN found : found[i].id = id /\ NormBs(found[i].bss) = {b}

StepOk(s) ==
  /\ s.returned /\ s.panic = ""
  /\ CASE s.name = "weird" -> TRUE
       [] s.name = "c-add" -> s.c = "ok"
       [] s.name = "c-get" -> s.c = "ok" /\ Norm(s.val) = CanaryFact
       [] s.name = "c-search" -> s.c = "ok" /\ Has1(s.found, "canary1", ("?x" :> Str("yes")))
       [] s.name = "c-addrule" -> s.c = "ok"
       [] s.name = "c-event" -> s.c = "ok" /\ Has1(s.found, "canaryrule", ("?v" :> Num(7)))
       [] s.name = "c-remrule" -> s.c = "ok"
       [] s.name = "c-remfact" -> s.c = "ok"
       [] s.name = "c-gone" -> s.c = "notfound"

Ok(e) == /\ Len(e.steps) = Len(Names)
         /\ \A i \in DOMAIN e.steps : e.steps[i].name = Names[i] /\ StepOk(e.steps[i])

Init == l = 2
Next == /\ l <= Len(Trace)
        /\ IF Ok(Trace[l]) THEN TRUE
           ELSE /\ PrintT(<<"REJECT", l>>) /\ TLCSet(2, TLCGet(2) \cup {l})
        /\ l' = l + 1
Spec == Init /\ [][Next]_l

ASSUME TLCSet(1, 0) /\ TLCSet(2, {}) /\ TLCSet(3, {})
Mark == TLCSet(1, IF TLCGet(1) < l THEN l ELSE TLCGet(1))
Accepted ==
  /\ PrintT(<<"CONSUMED", TLCGet(1) - 1, "OF", Len(Trace), "REJECTED", TLCGet(2), "DEVIATIONS", TLCGet(3)>>)
  /\ TLCGet(1) = Len(Trace) + 1
  /\ TLCGet(2) = {}
=============================================================================
