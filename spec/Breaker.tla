-------------------------------- MODULE Breaker --------------------------------
(***************************************************************************)
(* core.OutboundBreaker: at most Limit admissions in any sliding window of *)
(* the interval, and it admits again once earlier admissions have aged     *)
(* out, even while it is polled faster than its tick.                      *)
(*                                                                         *)
(* Time is an integer number of units; a tick (interval / Ticks) is Res    *)
(* units, so calls can arrive several times within a tick.  counts[1] is   *)
(* the current tick's bucket.  slide(now) is transcribed from the code:    *)
(*   ticks = (now - updated) / Res, shift the buckets by ticks, and        *)
(*   Variant = "always":  updated = now            (the code as first found)*)
(*   Variant = "onshift": updated = now only when ticks > 0 -- recovers, but *)
(*                        forgets an admission up to a tick early           *)
(*   Variant = "extra":   as "onshift", with one more bucket than ticks: no *)
(*                        early forgetting, but an admission is remembered  *)
(*                        for interval + one tick (rulio's own test wants   *)
(*                        it gone after exactly one interval)               *)
(*   Variant = "repaired": updated advances by whole ticks (the fraction of *)
(*                        a tick is kept, so polling cannot stall it) and   *)
(*                        is re-aligned to now only when a call is admitted *)
(*                        (so the bucket of an admission never starts       *)
(*                        before it)                                        *)
(***************************************************************************)
EXTENDS Integers, Sequences, FiniteSets

CONSTANTS Limit, Ticks, Res, MaxTime, MaxGap, Variant

Interval == Ticks * Res

VARIABLES now, updated, counts, adm   \* adm: times of all admissions so far (a sequence)
vars == <<now, updated, counts, adm>>

Buckets == IF Variant = "extra" THEN Ticks + 1 ELSE Ticks
Init == now = 0 /\ updated = 0 /\ counts = [i \in 1..Buckets |-> 0] /\ adm = <<>>

Min(a, b) == IF a < b THEN a ELSE b
Shift(c, k) == [i \in 1..Buckets |-> IF i - k >= 1 THEN c[i - k] ELSE 0]
RECURSIVE Sum(_, _)
Sum(c, i) == IF i = 0 THEN 0 ELSE c[i] + Sum(c, i - 1)

\* one call of Do at a time that is d units later
Call(d) ==
  LET t == now + d
      ticks == Min((t - updated) \div Res, Buckets)
      c1 == Shift(counts, ticks)
      closed == Sum(c1, Buckets) < Limit
      u1 == CASE Variant = "always" -> t
               [] Variant \in {"onshift", "extra"} -> IF ticks > 0 THEN t ELSE updated
               [] Variant = "repaired" -> IF closed THEN t
                                          ELSE IF ticks > 0 THEN updated + ((t - updated) \div Res) * Res ELSE updated
  IN /\ t <= MaxTime
     /\ now' = t /\ updated' = u1
     /\ counts' = IF closed THEN [c1 EXCEPT ![1] = c1[1] + 1] ELSE c1
     /\ adm' = IF closed THEN Append(adm, t) ELSE adm

Next == \E d \in 0..MaxGap : Call(d)
Spec == Init /\ [][Next]_vars

\* C20: any Limit+1 admissions span at least the interval
RateBound == \A i \in 1..Len(adm) : (i + Limit <= Len(adm)) => adm[i + Limit] - adm[i] >= Interval

\* C20: a call made when every earlier admission is at least two intervals old is admitted
\* (action property: in such a step the breaker admits)
Recovers == [][ (Len(adm) > 0 /\ now' - adm[Len(adm)] >= 2 * Interval) => Len(adm') = Len(adm) + 1 ]_vars
=============================================================================
