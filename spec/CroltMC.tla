-------------------------------- MODULE CroltMC --------------------------------
(***************************************************************************)
(* Bounded model of the Bolt-backed cron service: clients Add and Delete   *)
(* jobs, the work loop processes time keys that are due.  One action per   *)
(* Bolt transaction.                                                       *)
(*                                                                         *)
(* Two defects of the code as first found are kept as switches (the        *)
(* configurations with a switch off must fail):                            *)
(*   AtomicAdd  FALSE: Add looks the job up in one (read) transaction and  *)
(*              writes it in another; two Adds of one job then both write, *)
(*              the second without knowing the first one's time key, which *)
(*              stays behind: an entry in the time index that no job owns, *)
(*              and that fires as well.                                    *)
(*   Jitter     a set containing a negative number: the next due time of a *)
(*              recurring job is its next occurrence plus jitter; when the *)
(*              result lies before the occurrence, the job fires early and *)
(*              the occurrence computed after that firing is the same one  *)
(*              again.                                                     *)
(***************************************************************************)
EXTENDS Crolt, TLC

CONSTANTS Aids, Clients, MaxTime, TTL, Period, AtomicAdd, Jitter, MaxGen

VARIABLES S, now, pend, gen, fired
mcvars == <<S, now, pend, gen, fired>>

Occurrence(t) == ((t \div Period) + 1) * Period
Job(aid, at, once, evict, g, occ) ==
  [aid |-> aid, tid |-> <<at, aid>>, at |-> at, once |-> once, evict |-> evict, g |-> g, occ |-> occ]

Init == S = [jobs |-> <<>>, time |-> <<>>] /\ now = 0 /\ pend = [c \in Clients |-> None] /\ gen = 0 /\ fired = {}

Advance == now < MaxTime /\ now' = now + 1 /\ UNCHANGED <<S, pend, gen, fired>>

NewJobs(aid) ==
  {Job(aid, now + d, TRUE, FALSE, gen + 1, 0) : d \in 0..1} \cup
  {Job(aid, Occurrence(now) + x, FALSE, FALSE, gen + 1, Occurrence(now)) : x \in Jitter}

\* Add as one transaction
AddAtomic(aid) ==
  /\ AtomicAdd /\ gen < MaxGen
  /\ IF aid \in DOMAIN S.jobs THEN UNCHANGED <<S, gen>>           \* Exists
     ELSE \E j \in NewJobs(aid) : S' = DoUpdate(S, j, FALSE, <<>>) /\ gen' = gen + 1
  /\ UNCHANGED <<now, pend, fired>>
\* Add as a look-up followed, in another transaction, by the write
AddCheck(c, aid) ==
  /\ ~AtomicAdd /\ pend[c] = None /\ aid \notin DOMAIN S.jobs
  /\ pend' = [pend EXCEPT ![c] = aid]
  /\ UNCHANGED <<S, now, gen, fired>>
AddPut(c) ==
  /\ ~AtomicAdd /\ pend[c] # None /\ gen < MaxGen
  /\ \E j \in NewJobs(pend[c]) : S' = DoUpdate(S, j, FALSE, <<>>) /\ gen' = gen + 1
  /\ pend' = [pend EXCEPT ![c] = None]
  /\ UNCHANGED <<now, fired>>

Delete(aid) == S' = DoDelete(S, aid) /\ UNCHANGED <<now, pend, gen, fired>>

\* the work loop on one time key that is due (the value is the time bucket's copy)
Work(t) ==
  /\ t \in DOMAIN S.time /\ t[1] <= now
  /\ LET j == S.time[t] IN
       IF j.evict THEN S' = DoDelete(S, j.aid) /\ UNCHANGED fired
       ELSE /\ fired' = fired \cup {[aid |-> j.aid, g |-> j.g, occ |-> j.occ, due |-> j.at, at |-> now, n |-> Cardinality(fired)]}
            /\ IF j.once
               THEN S' = DoUpdate(S, Job(j.aid, now + TTL, TRUE, TRUE, j.g, 0), TRUE, j.tid)
               ELSE \E x \in Jitter : S' = DoUpdate(S, Job(j.aid, Occurrence(now) + x, FALSE, FALSE, j.g, Occurrence(now)), TRUE, j.tid)
  /\ UNCHANGED <<now, pend, gen>>

Next ==
  \/ Advance
  \/ \E a \in Aids : AddAtomic(a) \/ Delete(a)
  \/ \E c \in Clients, a \in Aids : AddCheck(c, a)
  \/ \E c \in Clients : AddPut(c)
  \/ \E t \in DOMAIN S.time : Work(t)
Spec == Init /\ [][Next]_mcvars

\* C16 on the persistent service
BucketsAgree == Agree(S)
NoEarlyFire == \A f \in fired : f.due <= f.at
\* a one-shot job fires once; a recurring one once per occurrence
OncePerOccurrence == \A p, q \in fired : (p.aid = q.aid /\ p.g = q.g /\ p.occ = q.occ) => p = q
\* and never before the occurrence its schedule names
NotBeforeOccurrence == \A f \in fired : f.occ <= f.at
JitterOk == {0, 1}
JitterNeg == {-1, 0}
=============================================================================
