SPECIFICATION Spec
CONSTANTS
  Class = "slow"
  HasTimeout = FALSE
  Buffered = TRUE
INVARIANT Outcome
PROPERTY Returns
