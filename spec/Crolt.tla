--------------------------------- MODULE Crolt ---------------------------------
(***************************************************************************)
(* The Bolt-backed cron service (crolt/cron.go): what its two kinds of     *)
(* bucket hold and how each transaction changes them.                      *)
(*                                                                         *)
(* A store S is [jobs, time]: jobs maps a job's key (account,id) to the    *)
(* job's value, time maps a time key (due time, then the job's key) to a   *)
(* copy of the same value; the value carries the time key it is filed      *)
(* under (tid).  The operators below are the bodies of the service's       *)
(* transactions as pure functions, used both by the model (CroltMC) and by *)
(* the validation of recorded runs (CroltTrace):                           *)
(*   DoUpdate   Cron.update: put jobs[aid]; delete the old time key if one *)
(*              is known; put the new time key                             *)
(*   DoDelete   Cron.delete: look the job up in jobs, delete the time key  *)
(*              it names, delete the job                                   *)
(*   Agree      C16's consistency: the two maps are one relation           *)
(***************************************************************************)
EXTENDS Integers, FiniteSets

Ext(f, k, v) == [x \in DOMAIN f \cup {k} |-> IF x = k THEN v ELSE f[x]]
Drop(f, k) == [x \in DOMAIN f \ {k} |-> f[x]]
None == "none"

DoUpdate(S, j, hasOld, oldTid) ==
  [jobs |-> Ext(S.jobs, j.aid, j),
   time |-> Ext(IF hasOld THEN Drop(S.time, oldTid) ELSE S.time, j.tid, j)]

DoDelete(S, aid) ==
  IF aid \notin DOMAIN S.jobs THEN S
  ELSE [jobs |-> Drop(S.jobs, aid), time |-> Drop(S.time, S.jobs[aid].tid)]

Agree(S) ==
  /\ \A a \in DOMAIN S.jobs : /\ S.jobs[a].aid = a
                              /\ S.jobs[a].tid \in DOMAIN S.time
                              /\ S.time[S.jobs[a].tid] = S.jobs[a]
  /\ \A t \in DOMAIN S.time : /\ S.time[t].tid = t
                              /\ S.time[t].aid \in DOMAIN S.jobs
                              /\ S.jobs[S.time[t].aid] = S.time[t]
=============================================================================
