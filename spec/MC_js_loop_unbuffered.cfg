SPECIFICATION Spec
CONSTANTS
  Class = "loop"
  HasTimeout = TRUE
  Buffered = FALSE
INVARIANT Outcome
PROPERTY Returns
