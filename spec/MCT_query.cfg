SPECIFICATION Spec
CONSTANTS
  Deep = TRUE
  QStr = {"?x", "?y", "?z"}
INVARIANTS Identities ShortCircuitDrops NotIsFilter AndComposes ResultsGrounded
CHECK_DEADLOCK FALSE
