SPECIFICATION Spec
CONSTANTS
  QStr <- HdrQStr
CONSTRAINT Mark
POSTCONDITION Accepted
CHECK_DEADLOCK FALSE
