SPECIFICATION MCSpec
CONSTANTS
  Ids = {"a", "b"}
  MaxTime = 4
  Period = 2
  MaxGen = 3
  Tracked = FALSE
  ResetAlways = TRUE
INVARIANTS UniquePending NoStaleEntry NoEarlyFire OncePerOccurrence TimerCovers
CHECK_DEADLOCK FALSE
