SPECIFICATION Spec
CONSTANTS
  Big = TRUE
  QStr = {"?x", "?y"}
INVARIANTS MatchIsDeclarative DevIsSuperset
CHECK_DEADLOCK FALSE
