------------------------------ MODULE LimitTrace ------------------------------
(***************************************************************************)
(* Validation of recorded runs of core.OutboundBreaker and core.Throttle   *)
(* against the properties model-checked in Breaker.tla and Throttle.tla.   *)
(* Every call carries a time bracket [t0, t1] (microseconds, taken just    *)
(* before and just after the call); a verdict is reached only when it      *)
(* holds for every instant inside the brackets:                            *)
(*  breaker RateBound: no Limit+1 admitted calls certainly within one      *)
(*    interval (latest t1 - earliest t0 < interval);                        *)
(*  breaker Recovers: no refused call whose bracket begins more than two   *)
(*    intervals after the end of every earlier admission;                   *)
(*  throttle: the function of a submission runs at most once and only for  *)
(*    result "ran"; never more than PendingLimit + 1 submissions certainly *)
(*    waiting at one instant.                                              *)
(***************************************************************************)
EXTENDS Integers, Sequences, FiniteSets, Json, IOUtils, TLC

Trace == ndJsonDeserialize(IOEnv.TRACE)
VARIABLE l

Idx(s) == DOMAIN s
Admitted(e) == {i \in Idx(e.calls) : e.calls[i].closed}

\* Limit+1 admissions certainly inside one window
RateViolation(e) ==
  \E S \in SUBSET Admitted(e) :
     /\ Cardinality(S) = e.limit + 1
     /\ \A i, j \in S : e.calls[i].t1 - e.calls[j].t0 < e.interval_us
\* cheaper equivalent: anchor at one admission and count those certainly within the interval after it
RateViolationFast(e) ==
  \E i \in Admitted(e) :
     Cardinality({j \in Admitted(e) : e.calls[j].t0 >= e.calls[i].t0 /\ e.calls[j].t1 - e.calls[i].t0 < e.interval_us}) > e.limit

\* a refused call although nothing was admitted for two intervals
RecoveryViolation(e) ==
  \E i \in Idx(e.calls) :
     /\ ~e.calls[i].closed
     /\ \E k \in Admitted(e) : e.calls[k].t0 < e.calls[i].t0
     /\ \A k \in Admitted(e) : e.calls[k].t0 < e.calls[i].t1 => e.calls[k].t1 + 2 * e.interval_us < e.calls[i].t0

BreakerOk(e) == ~RateViolationFast(e) /\ ~RecoveryViolation(e)

Margin == 5000   \* microseconds cut off both ends of a waiting bracket
WaitingAt(e, t) == {j \in Idx(e.subs) : e.subs[j].res # "overflow" /\ e.subs[j].t0 + Margin < t /\ t < e.subs[j].t1 - Margin}
ThrottleOk(e) ==
  /\ \A i \in Idx(e.subs) : e.subs[i].ran <= 1 /\ (e.subs[i].res = "ran" <=> e.subs[i].ran = 1)
  /\ \A i \in Idx(e.subs) : e.subs[i].res \in {"ran", "exhausted", "overflow"}
  /\ \A i \in Idx(e.subs) : Cardinality(WaitingAt(e, e.subs[i].t0 + Margin + 1)) <= e.pending_limit + 1
  /\ e.max_pending_sampled <= e.pending_limit + 1
  /\ e.pending_end = 0

Ok(e) == IF e.ev = "breaker" THEN BreakerOk(e) ELSE ThrottleOk(e)

Init == l = 2
Next == /\ l <= Len(Trace)
        /\ IF Ok(Trace[l]) THEN TRUE
           ELSE /\ PrintT(<<"REJECT", l>>) /\ TLCSet(2, TLCGet(2) \cup {l})
        /\ l' = l + 1
Spec == Init /\ [][Next]_l

ASSUME TLCSet(1, 0) /\ TLCSet(2, {}) /\ TLCSet(3, {})
Mark == TLCSet(1, IF TLCGet(1) < l THEN l ELSE TLCGet(1))
Accepted ==
  /\ PrintT(<<"CONSUMED", TLCGet(1) - 1, "OF", Len(Trace), "REJECTED", TLCGet(2), "DEVIATIONS", TLCGet(3)>>)
  /\ TLCGet(1) = Len(Trace) + 1
  /\ TLCGet(2) = {}
=============================================================================
