"""Per-property pipelines. Each returns the process exit code."""
import json, os
from vcheck import Broken, dec, describe

def engine_traces(run, profile, n, length=0, states="both", label=None, extra=None):
    """Random seeded histories of the location API on the real code, validated by TLC."""
    drv = run.build("enginedrv")
    label = label or profile
    out = os.path.join(run.tmp, "trace-%s.ndjson" % label)
    args = ["-profile", profile, "-seed", str(run.seed), "-n", str(n), "-state", states, "-out", out]
    if length:
        args += ["-len", str(length)]
    args += extra or []
    run.run_bin(drv, args, timeout=1500)
    rejected, tlcout = run.validate("EngineTrace.tla", "EngineTrace.cfg", out, label)
    for ln in rejected:
        run.reject(out, ln, stage=label)
    # samples: the first few operations of the first trace
    with open(out) as f:
        lines = [next(f) for _ in range(8)]
    run.sample({"trace_stage": label, "first_events": [describe(json.loads(x)) for x in lines[2:8]]})
    return out

def c02(run):
    q = run.tier == "quick"
    run.model_check("EngineMC.tla", "MC_facts.cfg")
    engine_traces(run, "facts", 60 if q else 600)
    run.assumptions += ["TLC 1.8 and the Json/IOUtils community modules",
                        "harness/enc lexical tables (strings starting with ? or !, integral numbers)",
                        "harness/world error classification by error type/message class"]
    return run.finish(rule="seeded random histories (AddFact/RemFact/GetFact/SearchFacts over 3 ids + generated ids, "
                           "facts/patterns from a nested JSON grammar) on indexed and linear state; every event "
                           "(result + storage ids) is checked by TLC against Engine!Step; "
                           "states/transitions are those of the exhaustive MC_facts model")

CHECKS = {"C02": c02}

def replay(run, path):
    rejected, out = run.validate("EngineTrace.tla", "EngineTrace.cfg", path, "replay")
    for ln in rejected:
        run.reject(path, ln, stage="replay")
    return run.finish(rule="replay of one recorded trace")
