"""Per-property pipelines. Each returns the process exit code."""
import json, os, re, subprocess
from vcheck import Broken, dec, describe, crash_signature

def engine_traces(run, profile, n, length=0, states="both", label=None, extra=None):
    """Random seeded histories of the location API on the real code, validated by TLC."""
    drv = run.build("enginedrv")
    label = label or profile
    out = os.path.join(run.tmp, "trace-%s.ndjson" % label)
    args = ["-profile", profile, "-seed", str(run.seed), "-n", str(n), "-state", states, "-out", out]
    if length:
        args += ["-len", str(length)]
    args += extra or []
    if run.run_driver(drv, args, timeout=1500, stage=label) is None:
        return None
    rejected, tlcout = run.validate("EngineTrace.tla", "EngineTrace.cfg", out, label)
    for ln in rejected:
        run.reject(out, ln, stage=label)
    # samples: the first few operations of the first trace
    with open(out) as f:
        lines = [next(f) for _ in range(8)]
    run.sample({"trace_stage": label, "first_events": [describe(json.loads(x)) for x in lines[2:8]]})
    return out

TRUSTED = ["TLC 1.8 and the Json/IOUtils community modules",
           "harness/enc lexical tables (strings starting with ? or !, integral numbers, durations, times)",
           "harness/world: error classification by error type / message class; projection of results",
           "real time: an operation that straddles a UNIX-second boundary voids its trace (re-run), never judged"]

def engine_prop(run, mc_cfgs, stages, rule):
    """The common shape of the Engine-family checks: exhaustive TLC on the small
    model(s), then seeded histories on the real code validated line by line."""
    for cfg in mc_cfgs:
        run.model_check("EngineMC.tla", cfg)
    for st in stages:
        engine_traces(run, **st)
    run.assumptions += TRUSTED
    return run.finish(rule=rule)

def n(run, quick, thorough):
    return quick if run.tier == "quick" else thorough

def c01(run):
    return engine_prop(run, ["MC_rules.cfg"],
        [dict(profile="index", n=n(run, 60, 800)),
         dict(profile="rules", n=n(run, 40, 600), extra=["-mixed-events"]),
         dict(profile="parents", n=n(run, 30, 400), extra=["-mixed-events"])],
        "seeded random histories of AddRule/RemRule/AddFact-on-rule-id/EnableRule/Clear/ProcessEvent/SearchRules/ListRules "
        "(one location; three locations with changing parents) on indexed and linear state; TLC compares FindRules' "
        "children (rule id, when-bindings) of every event with Engine!OpProcessEvent; rule actions are trivial scripts")

def c02(run):
    return engine_prop(run, ["MC_facts.cfg"],
        [dict(profile="facts", n=n(run, 60, 800)), dict(profile="cascade", n=n(run, 20, 300))],
        "seeded random histories (AddFact/RemFact/GetFact/SearchFacts over 3-4 ids + generated ids; facts and patterns "
        "from a nested JSON grammar with repeated variables, arrays, empty containers) on indexed and linear state; "
        "every result (ids, bindings, bodies) and the storage id set after every call are checked against Engine!Step")

def c06(run):
    q = run.tier == "quick"
    for cfg in ["MC_facts.cfg", "MC_expiry_q.cfg" if q else "MC_expiry.cfg"]:
        run.model_check("EngineMC.tla", cfg)
    stages = [dict(profile="cascade", n=n(run, 50, 600), extra=["-faults"], label="cascade-faults"),
              dict(profile="rules", n=n(run, 25, 300), extra=["-faults"], label="rules-faults"),
              dict(profile="expiry", n=n(run, 20, 250), extra=["-faults"], label="expiry-faults"),
              dict(profile="parents", n=n(run, 20, 250), extra=["-faults"], label="parents-faults"),
              dict(profile="cascade", n=n(run, 12, 150), extra=["-store", "bolt", "-faults"], label="cascade-bolt"),
              dict(profile="expiry", n=n(run, 8, 100), extra=["-store", "bolt"], label="expiry-bolt")]
    for st in stages:
        engine_traces(run, **st)
    # data handed back by the Bolt back end stays intact while the file grows (child process: a stale mmap read is fatal)
    drv = run.build("enginedrv")
    for state in ("linear", "indexed"):
        import subprocess
        p = subprocess.run([drv, "-profile", "boltalias", "-state", state], cwd=run.tmp, stdout=subprocess.PIPE,
                           stderr=subprocess.PIPE, text=True, timeout=600)
        run.cov["evaluations"] = run.cov.get("evaluations", 0) + 1
        if p.returncode == 2 and "fatal error" not in p.stderr and "panic" not in p.stderr and "SIGSEGV" not in p.stderr:
            raise Broken("boltalias driver could not run: " + p.stderr[-500:])
        if p.returncode != 0:
            from vcheck import crash_signature
            run.violation("bolt: data from Load not intact after the database grew (%s state): %s" % (
                state, crash_signature(p.stderr) or (p.stdout + p.stderr)[-300:]),
                {"driver": "enginedrv", "args": ["-profile", "boltalias", "-state", state], "stderr_head": p.stderr[:2000]},
                stage="boltalias")
    run.assumptions += TRUSTED + ["crash points: the store is photographed after each storage write of each operation (the image a crash "
                                  "at that point leaves); faults: the k-th storage write of an operation fails (k = 1..3)",
                                  "storage back ends: memory and Bolt (DynamoDB / Cassandra need servers)"]
    return run.finish(rule="seeded histories (cascades, rules, expiry, parents) on indexed/linear x memory/Bolt storage with the storage "
                           "wrapper of harness/world/faultstore.go: after every storage write of every operation the whole store is "
                           "photographed and TLC checks each image against Engine (every id as before or as after the operation; last "
                           "image = specified state, bodies included); injected write failures must surface as errors, and an "
                           "acknowledged retry must be in storage (reload follows); Reload operations check reload equivalence")

def c07(run):
    return engine_prop(run, ["MC_expiry.cfg"] if run.tier == "thorough" else ["MC_expiry_q.cfg"],
        [dict(profile="expiry", n=n(run, 40, 400)), dict(profile="expiry-rules", n=n(run, 30, 300))],
        "seeded histories with ttl (number, duration string) and expires (number, RFC3339) facts and rules, real sleeps "
        "across the expiry instant, reloads, reads by get/search/event; TLC checks every result against Engine with the "
        "recorded UNIX second: expires instants in returned bodies, never-seen-after, must-purge from storage once observed, "
        "rejection of already expired writes")

def c08(run):
    return engine_prop(run, ["MC_facts.cfg"],
        [dict(profile="cascade", n=n(run, 60, 800)), dict(profile="expiry", n=n(run, 15, 200), label="expiry-cascade")],
        "seeded histories over 4 ids with deleteWith graphs (chains, fans, cycles, self-loops, dangling targets; facts, rules "
        "and !disabled property facts as nodes), removals by RemFact/RemRule/expiry; the storage id set after every call "
        "must equal the specification's cascade closure")

def c09(run):
    return engine_prop(run, ["MC_parents.cfg"],
        [dict(profile="parents", n=n(run, 60, 800)),
         dict(profile="dispatch", n=n(run, 150, 1000), label="dispatch-parents"),
         dict(profile="system", n=n(run, 36, 400), extra=["-via", "system", "-check", "off"], label="system")],
        "seeded histories spread over locations A,B,C with changing parent lists (self loops, indirect loops, diamonds), "
        "inherited searches, ListRules, SearchRules and events; every result and every location's storage ids are checked "
        "against Engine (isolation: an operation on one location changes only that location)")

def c10(run):
    return engine_prop(run, ["MC_rules.cfg"],
        [dict(profile="index", n=n(run, 30, 400), label="index-lifecycle"),
         dict(profile="rules", n=n(run, 40, 600), label="rules-lifecycle"),
         dict(profile="lifecycle", n=n(run, 40, 500))],
        "seeded histories of add/overwrite/remove/disable/enable/reload/location-disable with events (one location and "
        "parent/child), indexed and linear; TLC checks which rules fire for every event and the class of every refusal")

def race_reports(stderr):
    """Go race detector reports, each reduced to the unordered set of functions of the racing accesses."""
    import re
    acc = []
    for rep in stderr.split("WARNING: DATA RACE")[1:]:
        fns = re.findall(r"(?:Write|Read|Previous write|Previous read) at .*?\n\s+(\S+)\(\)", rep)
        acc.append(" / ".join(sorted(set(f.split("/")[-1] for f in fns))) or "unparsed race report")
    return acc

def conc_rounds(run, drv, args, label, module="ConcTrace.tla", cfg="ConcTrace.cfg"):
    """Run a concurrent driver (built with -race), then let TLC look for a linearization of every round."""
    import subprocess
    out = os.path.join(run.tmp, "conc-%s.ndjson" % label)
    p = subprocess.run([drv] + args + ["-out", out], cwd=run.tmp, stdout=subprocess.PIPE, stderr=subprocess.PIPE, text=True,
                       timeout=3000, env=dict(os.environ, GORACE="halt_on_error=0"))
    races = race_reports(p.stderr)
    for r in sorted(set(races)):
        run.violation("data race: " + r, {"driver": os.path.basename(drv), "args": args, "races": races[:5], "stderr_head": p.stderr[:3000]}, stage="race")
    if p.returncode == 3:
        run.violation("deadlock: " + p.stdout.strip().split("\n")[-1][:200], {"driver": os.path.basename(drv), "args": args,
                      "stdout": p.stdout[-1500:]}, stage="deadlock")
    elif p.returncode not in (0, 66):
        from vcheck import crash_signature
        sig = crash_signature(p.stderr)
        if sig is None:
            raise Broken("concurrent driver failed (%d): %s" % (p.returncode, p.stderr[-1500:]))
        run.violation("process crash under concurrency: " + sig, {"driver": os.path.basename(drv), "args": args, "stderr_head": p.stderr[:3000]}, stage="crash")
        return
    if "hooks=true" not in p.stdout:
        run.assumptions.append("verif hook points missing from this build: plain stress only")
    # linearizability, round by round: on a rejected round report it and go on with the rounds after it
    lines = open(out).read().split("\n")
    header, body = lines[0], [x for x in lines[1:] if x]
    starts = [i for i, x in enumerate(body) if '"ev":"round"' in x] + [len(body)]
    first = 0
    guard = 0
    while first < len(starts) - 1 and guard < 30:
        guard += 1
        part = os.path.join(run.tmp, "conc-%s-%d.ndjson" % (label, first))
        with open(part, "w") as f:
            f.write(header + "\n" + "\n".join(body[starts[first]:]) + "\n")
        nrounds = len(starts) - 1 - first
        rc, tout, dt = run.tlc(module, cfg, env={"TRACE": part}, workers=1, timeout=3000, label="conc-%s-%d" % (label, first))
        import re
        m = re.search(r'"CONSUMED",\s*(\d+),\s*"OF",\s*(\d+)', tout)
        if not m:
            raise Broken("linearizability check did not complete:\n" + tout[-2000:])
        consumed, total = int(m.group(1)), int(m.group(2))
        st, gen = run.tlc_counts(tout)
        run.cov["states"] += st; run.cov["transitions"] += gen
        if consumed >= total:
            run.cov["traces_validated_against_impl"] += nrounds
            run.cov["events_validated"] += len(body) - starts[first]
            break
        # line `consumed+1` of the part file (1-based incl. header) could not be explained: find its round
        # TLC consumed `consumed` lines of the part file (its line 1 is the header, line 2 is body[starts[first]]),
        # so the line it could not explain is part-file line consumed+1, i.e. body index starts[first] + consumed - 1
        bad_line = starts[first] + consumed - 1
        k = max(i for i in range(len(starts) - 1) if starts[i] <= bad_line)
        rnd = body[starts[k]:starts[k + 1]]
        hdr = json.loads(rnd[0])
        # is the round explained by a recorded deviation of the specification (a known finding)?
        one = os.path.join(run.tmp, "conc-%s-round%d.ndjson" % (label, k))
        with open(one, "w") as f:
            f.write(header + "\n" + "\n".join(rnd) + "\n")
        rc2, tout2, dt2 = run.tlc(module, cfg.replace(".cfg", "Dev.cfg"), env={"TRACE": one}, workers=1, timeout=3000, label="conc-dev-%s-%d" % (label, k))
        m2 = re.search(r'"CONSUMED",\s*(\d+),\s*"OF",\s*(\d+)', tout2)
        if m2 and int(m2.group(1)) >= int(m2.group(2)):
            f_ = next((f for f in run.findings if f.get("status") != "fixed" and f.get("deviation") == "D_EVENT_NOT_ATOMIC"), None)
            if f_ is not None:
                if f_["id"] not in [x[0] for x in run.known]:
                    run.known.append((f_["id"], f_["what"]))
                run.cov.setdefault("deviation_rounds", 0)
                run.cov["deviation_rounds"] += 1
                run.cov["traces_validated_against_impl"] += k - first
                first = k + 1
                continue
        run.violation("no sequential order explains round %s (%s state): stuck at %s" % (hdr.get("round"), hdr.get("state"),
                      body[bad_line][:200]), {"header": json.loads(header), "round": [json.loads(x) for x in rnd]}, stage="linearizability")
        run.cov["traces_validated_against_impl"] += k - first
        first = k + 1
    run.cov["stages"].append({"stage": "linearizability", "label": label, "rounds": len(starts) - 1, "races": len(races)})
    if body:
        run.sample({"round_of": label, "lines": [json.loads(x).get("op", json.loads(x).get("ev")) for x in body[starts[0]:starts[1]]][:14]})

def c11(run):
    q = run.tier == "quick"
    run.model_check("EngineMC.tla", "MC_parents.cfg")
    drv = run.build("concdrv", race=True)
    reps = 1 if q else 5
    for i in range(reps):
        conc_rounds(run, drv, ["-seed", str(run.seed * 100 + i), "-rounds", "240" if q else "1000", "-clients", "6", "-ops", "3",
                               "-via", "system", "-layout", "own"], "c11-system-%d" % i)
        conc_rounds(run, drv, ["-seed", str(run.seed * 100 + 50 + i), "-rounds", "240" if q else "1000", "-clients", "6", "-ops", "3",
                               "-via", "http", "-layout", "own"], "c11-http-%d" % i)
    run.assumptions += TRUSTED[:3] + ["every round starts a new System (cold storage, cold location cache): the first requests of the clients "
                                      "are released together", "Go race detector on the validated runs; verif hook points in the location cache"]
    return run.finish(rule="rounds of 2-6 clients, each owning one location of a freshly started System (location-cache TTL forever / never / "
                           "1 ms rotating; indexed / linear), 3 requests each, through sys.System and through HTTPService.ServeHTTP in rotating "
                           "encodings; TLC (ConcTrace) checks every logged result and every location's final memory and storage against "
                           "Engine: with disjoint locations that is exactly 'as if each location's requests had run alone in issue order'; "
                           "race reports, deadlocks and crashes of the same runs are violations")

def c12(run):
    q = run.tier == "quick"
    run.model_check("EngineMC.tla", "MC_rules.cfg")
    drv = run.build("concdrv", race=True)
    for i in range(1 if q else 6):
        conc_rounds(run, drv, ["-seed", str(run.seed * 100 + i), "-rounds", "400" if q else "1500", "-clients", "4", "-ops", "3"], "c12-%d" % i)
    run.assumptions += TRUSTED[:3] + ["call and return lines are ordered by a sequence number taken under one lock (real-time order)",
                                      "Go race detector on the very runs that are validated; verif hook points turn storage writes inside "
                                      "the state's critical sections into scheduling points",
                                      "rounds of 2-4 clients x 3 operations on 2 shared ids (the linearization search stays small)"]
    return run.finish(rule="rounds of concurrent AddFact/RemFact/GetFact/SearchFacts/AddRule/RemRule/EnableRule/ProcessEvent by 2-4 clients on "
                           "two shared ids of one location (indexed / linear alternating), after a short random sequential prefix; TLC "
                           "searches a linearization of every round against Engine!Step (results of every call and the final memory and "
                           "storage contents); race reports, deadlocks (watchdog) and crashes of the same runs are violations")

def c13(run):
    q = run.tier == "quick"
    import subprocess
    # the grammar is enumerated by TLC, one document per initial state
    docs = os.path.join(run.tmp, "docs.ndjson")
    st, gen, out = run.model_check("Totality.tla", "Gen_totality.cfg", workers=1, env={"GEN_OUT": docs})
    ndocs = sum(1 for _ in open(docs))
    drv = run.build("totaldrv")
    stride = 4 if q else 1
    start = (run.seed % stride)
    body = os.path.join(run.tmp, "total.ndjson")
    with open(body, "w") as f:
        f.write(json.dumps({"ev": "header"}) + "\n")
    offset, crashes = start, 0
    while offset < ndocs + 3:
        part = os.path.join(run.tmp, "total-part.ndjson")
        jr = os.path.join(run.tmp, "total.journal")
        p = subprocess.run([drv, "-docs", docs, "-stride", str(stride), "-offset", str(offset), "-out", part, "-journal", jr],
                           cwd=run.tmp, stdout=subprocess.PIPE, stderr=subprocess.PIPE, text=True, timeout=3000)
        if os.path.exists(part):
            with open(body, "a") as f:
                f.write(open(part).read())
        if p.returncode == 0:
            break
        from vcheck import crash_signature
        sig = crash_signature(p.stderr)
        last = None
        try:
            last = json.loads(open(jr).read().strip().split("\n")[-1])
        except Exception:
            pass
        if sig is None or last is None:
            raise Broken("totaldrv failed without a crash in rulio: " + p.stderr[-1500:])
        crashes += 1
        if crashes > 25:
            raise Broken("too many crashes")
        run.violation("process crash (%s) on document %s used as %s (%s state, %s)" % (
            sig, json.dumps(last["doc"]), last["use"], last["state"], last["via"]),
            {"journal_last": last, "stderr_head": p.stderr[:2500]}, stage="crash")
        offset = last["di"] + stride
    rejected, _ = run.validate("TotalTrace.tla", "TotalTrace.cfg", body, "total", timeout=3000)
    lines = open(body).read().split("\n")
    for ln in rejected:
        e = json.loads(lines[ln - 1])
        bad = [s for s in e["steps"] if not s["returned"] or s["panic"]]
        first = bad[0] if bad else next((s for s in e["steps"] if s["name"] != "weird"), e["steps"][-1])
        what = "document %s as %s (%s state, %s): step %s %s" % (e["json"][:160], e["use"], e["state"], e["via"], first["name"],
               "DID NOT RETURN" if not first["returned"] else ("PANIC " + first["panic"][:80] if first["panic"] else "answered " + first["c"]))
        if not bad:
            wrong = [s["name"] + "->" + s["c"] for s in e["steps"]]
            what = "document %s as %s (%s state, %s): canary protocol %s" % (e["json"][:160], e["use"], e["state"], e["via"], wrong)
        run.violation(what, {"event": e}, stage="total")
    for ln in (2, 40, 300):
        if ln < len(lines) and lines[ln - 1]:
            e = json.loads(lines[ln - 1])
            run.sample({"doc": e["json"], "use": e["use"], "state": e["state"], "via": e["via"],
                        "steps": [(s["name"], s["c"]) for s in e["steps"]]})
    run.cov["evaluations"] = run.cov.get("events_validated", 0)
    run.cov["distinct_nontrivial"] = len(set(json.loads(x)["json"] for x in lines[1:] if x))
    run.assumptions += ["bounded grammar (Totality!Docs, %d documents) plus three documents nested 200 deep; not open-ended fuzzing" % ndocs,
                        "per-call watchdog 5 s; a fatal crash of the child process is attributed to the journal's last line",
                        "ill-typed !parents and string-valued !enabled/!writeKey/!readKey are configuration, not unusual shapes (excluded)"]
    return run.finish(level="exploration", rule="every document of the TLC-enumerated grammar (every JSON type in every reserved-key position, "
                      "variable-looking strings as keys and values, empty / heterogeneous / nested containers; every %s-th document in "
                      "the quick tier) x {AddFact, AddRule, SearchFacts, Query, ProcessEvent, SearchRules, AddFact-then-search-with-itself} "
                      "x {indexed, linear} x {Location, every 4th also sys.System}; each followed by the 8-step canary protocol on the same "
                      "location; non-trivial = distinct documents" % stride)

def c14(run):
    q = run.tier == "quick"
    for cfg in ["MC_js_value_TRUE.cfg", "MC_js_value_FALSE.cfg", "MC_js_throw_TRUE.cfg", "MC_js_throw_FALSE.cfg",
                "MC_js_loop_TRUE.cfg", "MC_js_slow_TRUE.cfg", "MC_js_slow_FALSE.cfg"]:
        run.model_check("JsWatchdog.tla", cfg, workers=1)
    # the protocol as first found (unbuffered clean-up channel) must still be seen to deadlock: guards the model against vacuity
    rc, out, dt = run.tlc("JsWatchdog.tla", "MC_js_loop_unbuffered.cfg", workers=1, label="unbuffered")
    if "Deadlock reached" not in out:
        raise Broken("JsWatchdog no longer exposes the deadlock of the unbuffered protocol:\n" + out[-800:])
    drv = run.build("jsdrv")
    out = os.path.join(run.tmp, "js.ndjson")
    run.run_bin(drv, ["-reps", "2" if q else "12", "-out", out], timeout=1500)
    rejected, _ = run.validate("JsTrace.tla", "JsTrace.cfg", out, "js")
    with open(out) as f:
        lines = f.read().split("\n")
    for ln in rejected:
        e = json.loads(lines[ln - 1])
        what = "script class=%s path=%s limit=%dms needs=%dms -> %s after %dms, %s value=%s %s" % (
            e["class"], e["path"], e["limit_ms"], e["dur_ms"], "returned" if e["returned"] else "DID NOT RETURN",
            e["elapsed_ms"], "error" if e["err"] else "no error", json.dumps(dec(e["val"]))[:60], e["msg"][:80])
        run.violation(what, {"header": json.loads(lines[0]), "event": e}, stage="js")
    for ln in (2, 12, 17):
        e = json.loads(lines[ln - 1])
        run.sample({k: e[k] for k in ("path", "class", "limit_ms", "dur_ms", "returned", "elapsed_ms", "err")})
    run.assumptions += ["wall-clock margins: a stopped script has to come back within limit + 1 s; every other call within 5 s "
                        "(hard per-call watchdog 6 s); limits 50 ms and 200 ms, system default (60 s) and disabled",
                        "script families: value (sees bindings x, y), throw, syntax error, while(true){}, busy-wait of a given duration"]
    return run.finish(rule="script classes {value, throw, syntax, loop, slow-under, slow-over} x limits {50ms, 200ms, default, disabled} x "
                           "paths {Location.RunJavascript, rule condition, rule action}, repeated; each recorded outcome (returned?, elapsed, "
                           "error?, value) is validated by TLC against JsTrace (the outcome table of JsWatchdog); states/transitions: "
                           "JsWatchdog model-checked for deadlock freedom, Returns (liveness under weak fairness) and Outcome per class")

def c15(run):
    return engine_prop(run, ["MC_rules.cfg"],
        [dict(profile="cron", n=n(run, 40, 500), extra=["-via", "system", "-check", "off", "-cron", "rec"], label="cron-rec"),
         dict(profile="cron", n=n(run, 36, 400), extra=["-via", "system", "-check", "off", "-cron", "all", "-store", "bolt"], label="cron-all-bolt")],
        "seeded histories over two locations that share rule ids: scheduled (one-shot, recurring) and ordinary rules added, replaced by "
        "each other and by plain facts, removed, cascade-deleted, cleared, disabled; ticks ({\"trigger!\": id}) delivered for registered, "
        "removed and never-registered ids; restarts of the whole System over Bolt storage. Through sys.System with a recording cron service "
        "(persistent / not persistent) and with the built-in cron (job count). After every call TLC checks the registrations against the "
        "scheduled rules Engine holds (every existing scheduled rule registered; strictly nothing else) and what each tick evaluated, "
        "executed and removed")

def cron_stage(run):
    """In-memory cron: Cron.tla model-checked (with the two repaired defects as must-fail
    variants), then timed runs of the real service validated against it."""
    run.model_check("CronMC.tla", "MC_cron.cfg")
    for cfg, needle in (("MC_cron_untracked.cfg", "NoStaleEntry is violated"), ("MC_cron_losttimer.cfg", "TimerCovers is violated")):
        rc, out, dt = run.tlc("CronMC.tla", cfg, label=cfg)
        if needle not in out:
            raise Broken("CronMC.tla %s: expected '%s'\n%s" % (cfg, needle, out[-600:]))
    drv = run.build("crondrv")
    procs = 8 if run.tier == "quick" else 16
    per = 8 if run.tier == "quick" else 40
    outs = [os.path.join(run.tmp, "cron-%d.ndjson" % i) for i in range(procs)]
    import concurrent.futures as cf
    with cf.ThreadPoolExecutor(procs) as ex:
        rs = list(ex.map(lambda i: run.run_bin(drv, ["-seed", str(run.seed * 100 + i), "-n", str(per), "-out", outs[i]], timeout=3000), range(procs)))
    hooks = sum(json.loads(r.stdout.strip().split("\n")[-1])["hook_events"] for r in rs)
    trace = os.path.join(run.tmp, "cron.ndjson")
    with open(trace, "w") as f:
        for o in outs:
            f.write(open(o).read())
    rejected, _ = run.validate("CronTrace.tla", "CronTrace.cfg", trace, "cron")
    with open(trace) as f:
        lines = f.read().split("\n")
    for ln in rejected:
        sub = []
        k = ln
        while k >= 1:
            sub.insert(0, json.loads(lines[k - 1]))
            if sub[0]["ev"] == "reset":
                break
            k -= 1
        e = sub[-1]
        what = "in-memory cron, scenario %s seed %s: line %d %s is not a step of Cron.tla; before it: %s" % (
            sub[0].get("kind"), sub[0].get("seed"), len(sub), json.dumps(e)[:300],
            " ".join("%s(%s%s)" % (x["ev"], x.get("id", ""), "#%d" % x["g"] if "g" in x else "") for x in sub[1:-1][-14:]))
        run.violation(what, {"trace": sub}, stage="cron")
    run.cov["cron_hook_events"] = hooks
    for ln in (2, 3, 4):
        if ln - 1 < len(lines) and lines[ln - 1]:
            run.sample(json.loads(lines[ln - 1]))
    run.assumptions += ["in-memory cron: one-shot delays 15-500 ms, recurring jobs every second (functions lasting 0-450 ms), 2 clients on "
                        "disjoint ids plus a controller (suspend/resume/pause); scenario families remhead, remrunning (Rem / replace while the "
                        "function runs), random, suspend; all times are readings of one clock, so 'not before due' is exact; the only margin is "
                        "at the end of a scenario (1.5 s quiet, nothing may be overdue by more than 1 s)"]

def crolt_stage(run):
    """Bolt-backed cron (crolt, package main): Crolt.tla model-checked (two repaired defects as must-fail variants), then
    histories of the real service, driven by an in-package test placed with `go test -overlay`, validated against it."""
    run.model_check("CroltMC.tla", "MC_crolt.cfg")
    for cfg, needle in (("MC_crolt_nonatomic.cfg", "BucketsAgree is violated"), ("MC_crolt_negjitter.cfg", "is violated")):
        rc, out, dt = run.tlc("CroltMC.tla", cfg, label=cfg)
        if needle not in out:
            raise Broken("CroltMC.tla %s: expected '%s'\n%s" % (cfg, needle, out[-600:]))
    from vcheck import REPO, HARNESS, GOENV
    ov = os.path.join(run.tmp, "crolt-overlay.json")
    json.dump({"Replace": {os.path.join(REPO, "crolt", "zz_verif_crolt_test.go"): os.path.join(HARNESS, "overlay", "crolt_verif_test.go.txt")}}, open(ov, "w"))
    procs = 6 if run.tier == "quick" else 16
    per = 8 if run.tier == "quick" else 40
    outs = [os.path.join(run.tmp, "crolt-%d.ndjson" % i) for i in range(procs)]
    # build the test binary once, run it several times
    tb = os.path.join(run.tmp, "crolt.test")
    p = subprocess.run(["go", "test", "-c", "-tags", "verif", "-vet=off", "-overlay", ov, "-o", tb, "./crolt/"], cwd=REPO, env=GOENV,
                       stdout=subprocess.PIPE, stderr=subprocess.STDOUT, text=True)
    if p.returncode != 0 or not os.path.exists(tb):
        raise Broken("go test -c ./crolt failed:\n" + p.stdout[-3000:])
    def one(i):
        e = dict(GOENV, VERIF_OUT=outs[i], VERIF_SEED=str(run.seed * 100 + i), VERIF_N=str(per), VERIF_TMP=run.tmp)
        q = subprocess.run([tb, "-test.run", "TestVerifCrolt", "-test.count=1", "-test.timeout", "50m"], cwd=run.tmp, env=e,
                           stdout=subprocess.PIPE, stderr=subprocess.STDOUT, text=True)
        m = re.search(r"VERIF-CROLT (\{.*\})", q.stdout)
        if q.returncode != 0 or not m:
            sig = crash_signature(q.stdout)
            if sig is not None:
                return ("crash", sig, q.stdout)
            raise Broken("crolt driver failed (%d):\n%s" % (q.returncode, q.stdout[-3000:]))
        return ("ok", json.loads(m.group(1)), "")
    import concurrent.futures as cf
    with cf.ThreadPoolExecutor(procs) as ex:
        rs = list(ex.map(one, range(procs)))
    for kind, info, outp in rs:
        if kind == "crash":
            run.violation("process crash in crolt: " + info, {"stderr_head": outp[:3000]}, stage="crolt")
    trace = os.path.join(run.tmp, "crolt.ndjson")
    with open(trace, "w") as f:
        for o in outs:
            if os.path.exists(o):
                f.write(open(o).read())
    rejected, _ = run.validate("CroltTrace.tla", "CroltTrace.cfg", trace, "crolt")
    with open(trace) as f:
        lines = f.read().split("\n")
    brief = lambda x: ("%s(%s)->%s" % (x.get("op"), x.get("aid", x.get("acct", x.get("part", ""))), x.get("res"))) if x["ev"] == "op" else x["ev"]
    for ln in rejected:
        sub = []
        k = ln
        while k >= 1:
            sub.insert(0, json.loads(lines[k - 1]))
            if sub[0]["ev"] == "reset":
                break
            k -= 1
        e = sub[-1]
        content = lambda x: "jobs %s / time %s" % ([(j["k"], j["at"], "evict" if j["evict"] else "") for j in x.get("jobs", [])][:8],
                                                    [(j["k"][-14:], j["aid"]) for j in x.get("time", [])][:8])
        what = "crolt, scenario %s seed %s (partitions %s, ttl %sus, jitter %sus): line %d %s [%d..%d us] fires %s leaves %s; before: %s; history: %s" % (
            sub[0].get("kind"), sub[0].get("seed"), sub[0].get("parts"), sub[0].get("ttl"), sub[0].get("jitter"), len(sub), brief(e),
            e.get("t0", 0), e.get("t1", 0), e.get("fires"), content(e), content(sub[-2]) if len(sub) > 2 else "empty",
            " ".join(brief(x) for x in sub[1:-1][-10:]))
        run.violation(what[:1800], {"trace": sub}, stage="crolt")
    st = {"hook_calls": sum(i["hook_calls"] for k, i, o in rs if k == "ok"), "work_passes": 0, "fires": 0, "passes_at_limit": 0, "reopens": 0, "concurrent_rounds": 0}
    for x in lines:
        if '"op":"work"' in x:
            st["work_passes"] += 1
            nf = len(json.loads(x)["fires"]); st["fires"] += nf; st["passes_at_limit"] += nf >= 10
        elif '"op":"reopen"' in x:
            st["reopens"] += 1
        elif '"op":"conc"' in x:
            st["concurrent_rounds"] += 6
    if st["hook_calls"] == 0 or st["fires"] == 0:
        raise Broken("crolt driver exercised nothing: %s" % st)
    run.cov["crolt"] = st
    run.assumptions += ["Bolt-backed cron: 2-4 partitions, accounts of 1-11 characters, TTL 200-500 ms, MaxJitter 0/150/300 ms, one-shot delays 5-420 ms, "
                        "recurring jobs every second; work passes are called by the driver (Cron.work in a Bolt update, as WorkLoops does); the jobs' "
                        "requests go to a local HTTP endpoint that records their arrival; a recurring job's due time must be a whole second plus a "
                        "jitter in [0, MaxJitter] (the design after the jitter repair)"]

def c16(run):
    cron_stage(run)
    crolt_stage(run)
    return run.finish(rule="in-memory cron: every interleaving of Add/Rem/replace, the loop, the running functions and suspend/resume for 2 ids "
                           "x 3 jobs x 4 ticks (CronMC); timed scenarios of the real service, its steps reported by hook points under its lock, "
                           "validated line by line by TLC against Cron.tla (CronTrace): pops only of the head and only when due, one function "
                           "start per pop, no insertion of a removed/replaced job, timeline = model after every snapshot, nothing overdue at the end. "
                           "Bolt-backed cron: every interleaving of 2 clients' Add/Delete and the work loop on 2 jobs x 5 ticks (CroltMC); histories "
                           "of the real service over a Bolt file (sequential with reopen points between operations, bursts of jobs coming due together, "
                           "rounds of concurrent Adds/Deletes with workers going), the complete bucket content after every operation validated by TLC "
                           "(CroltTrace): buckets agree key for key, each operation is the transition Crolt allows, a due job fires once and not early")

def c17(run):
    drv = run.build("concdrv", race=True)
    conc_rounds(run, drv, ["-seed", str(run.seed), "-rounds", "300" if run.tier == "quick" else "2000", "-clients", "4", "-ops", "3",
                           "-via", "system", "-layout", "shared"], "c17-first-requests")
    return engine_prop(run, ["MC_parents.cfg"],
        [dict(profile="system", n=n(run, 72, 900), extra=["-via", "system"])],
        "the same seeded histories over three locations (facts, rules, parents, events, clear, create) through sys.System under "
        "location-cache TTL never / 1ms / forever x existence checking on / off x indexed / linear (rotated over the traces); every "
        "configuration has to refine the one cache-less Engine specification line by line (results and storage ids), which is what "
        "transparency means; with checking on, requests to a never-created location must answer not-found and store nothing. "
        "Single load / shared instance: rounds of 2-4 concurrent FIRST requests to one location of a freshly started System (TTL "
        "forever / never / 1 ms) are checked for linearizability (two instances of the location would lose acknowledged writes)")

def c18(run):
    return engine_prop(run, ["MC_parents.cfg"],
        [dict(profile="service", n=n(run, 70, 900), extra=["-via", "http"])],
        "seeded histories over two locations whose every request is rendered in one of seven ways (query string, form body, JSON "
        "body, /api/json envelope, /api/yaml envelope, one-element batch, Service.ProcessRequest) under four URI prefixes, rotated "
        "per request, with ids that need URL/JSON escaping; the decoded response of every request must be what Engine (the "
        "specification of the direct API) allows, so all encodings agree with the direct call and with each other; ill-formed "
        "requests (missing / ill-typed parameter, unknown URI, empty body) must answer with an error and change nothing")

def c19(run):
    return engine_prop(run, ["MC_guards.cfg"],
        [dict(profile="guards", n=n(run, 60, 800))],
        "seeded histories that set/clear write key, read key, read-only mode and the enabled flag and call every "
        "operation with no key / wrong key / right key; TLC checks refusal class and that storage is unchanged on refusal")

def limits_stage(run):
    """Breaker and throttle: models, then timed runs validated with brackets."""
    run.model_check("Breaker.tla", "MC_breaker.cfg")
    # the variants that must NOT pass keep the model honest
    for cfg, needle in (("MC_breaker_always.cfg", "Recovers is violated"), ("MC_breaker_onshift.cfg", "RateBound is violated")):
        rc, out, dt = run.tlc("Breaker.tla", cfg, label=cfg)
        if needle not in out:
            raise Broken("Breaker.tla %s: expected '%s'\n%s" % (cfg, needle, out[-600:]))
    run.model_check("Throttle.tla", "MC_throttle.cfg")
    drv = run.build("limitdrv")
    out = os.path.join(run.tmp, "limits.ndjson")
    run.run_bin(drv, ["-seed", str(run.seed), "-scale", "1" if run.tier == "quick" else "8", "-out", out], timeout=1500)
    rejected, _ = run.validate("LimitTrace.tla", "LimitTrace.cfg", out, "limits")
    with open(out) as f:
        lines = f.read().split("\n")
    for ln in rejected:
        e = json.loads(lines[ln - 1])
        if e["ev"] == "breaker":
            adm = sorted([c["t0"] for c in e["calls"] if c["closed"]])
            what = "breaker limit=%d interval=%dus pattern=%s workers=%d: %d calls, admissions at (us) %s" % (
                e["limit"], e["interval_us"], e["pattern"], e["workers"], len(e["calls"]), adm[:12])
        else:
            what = "throttle pendingLimit=%d attempts=%d: results %s max_pending_sampled=%d pending_end=%d" % (
                e["pending_limit"], e["attempts"], [(s["res"], s["ran"]) for s in e["subs"]][:16], e["max_pending_sampled"], e["pending_end"])
        run.violation(what, {"event": e}, stage="limits")
    for ln in (2, len(lines) - 2):
        e = json.loads(lines[ln - 1])
        run.sample({k: (v if not isinstance(v, list) else v[:4]) for k, v in e.items()})
    run.assumptions += ["breaker / throttle timing: verdicts only from time brackets taken around each call (rate: limit+1 admissions "
                        "certainly within one interval; recovery: refusal more than two intervals after every earlier admission; "
                        "waiting submissions: brackets shrunk by 5 ms)"]

def c20(run):
    limits_stage(run)
    return engine_prop(run, ["MC_guards.cfg"],
        [dict(profile="capacity", n=n(run, 60, 800))],
        "capacity: seeded add/remove histories around MaxFacts=3 (facts, rules, property facts), StateSize after adds; "
        "TLC checks refusal exactly at capacity and no side effect of a refused add. Breaker: limits 1/2/5 x intervals 200/400 ms x "
        "arrival patterns (burst then polling 10x faster than a tick, fast/slow/random polling, repeated bursts; 1-4 concurrent callers); "
        "throttle: 12-18 staggered submissions against a breaker that never admits / admits every 50 ms, pendingLimit 0/1/3; every "
        "scenario validated by TLC (LimitTrace) against the bounds proved on Breaker.tla / Throttle.tla")

def c04(run):
    return engine_prop(run, ["MC_rules.cfg"],
        [dict(profile="dispatch", n=n(run, 80, 1000)), dict(profile="rules", n=n(run, 20, 200), label="rules-tree")],
        "seeded histories over two locations (facts over a narrow value space, rules with multi-binding when patterns, "
        "conditions pattern/and/or/not/code, 1-3 actions that return {tag, their visible bindings}, return a number, or throw); "
        "for every event TLC compares the whole work tree (per rule and when-binding: condition outcome, bag of executions "
        "with bindings), each execution's disposition and value, and the values list with Engine!OpProcessEvent")

def c05(run):
    q = run.tier == "quick"
    run.model_check("MatchMC.tla", "MC_match.cfg" if q else "MCT_match.cfg")
    drv = run.build("matchdrv")
    out = os.path.join(run.tmp, "match.ndjson")
    run.run_bin(drv, ["-seed", str(run.seed), "-stride", "7" if q else "1", "-random", "3000" if q else "40000", "-out", out])
    rejected, _ = run.validate("MatchTrace.tla", "MatchTrace.cfg", out, "match")
    with open(out) as f:
        lines = f.read().split("\n")
    for ln in rejected:
        e = json.loads(lines[ln - 1])
        run.violation("match via %s p=%s d=%s b0=%s -> %s err=%s mut=%s" % (
            e["via"], json.dumps(dec(e["p"])), json.dumps(dec(e["d"])), json.dumps({k: dec(v) for k, v in e["b0"].items()}),
            json.dumps([{k: dec(v) for k, v in b.items()} for b in e["res"]]), e["err"], e["mut"]),
            {"header": json.loads(lines[0]), "event": e}, stage="match")
    for ln in (2, 3, len(lines) // 2):
        e = json.loads(lines[ln - 1])
        run.sample({"via": e["via"], "pattern": dec(e["p"]), "data": dec(e["d"]), "b0": {k: dec(v) for k, v in e["b0"].items()},
                    "result": [{k: dec(v) for k, v in b.items()} for b in e["res"]]})
    run.assumptions += TRUSTED[:2] + ["fragment: maps over keys a,b(,c,d) nested to depth 3, arrays of distinct scalars with at most one "
                        "variable, arrays of up to two maps, every JSON scalar type, variables ?x ?y (repeated), one initial binding; "
                        "?-strings inside data and ??optional / ?<inequality variables are outside the fragment"]
    return run.finish(rule="exhaustive universe of 324 patterns x 144 data maps (every stride-th pair in the quick tier) through "
                           "core.Matches, plus core.Match with an initial binding and Go-typed inputs on a third of them, plus seeded "
                           "random deeper cases; TLC compares the returned binding SET with Match!MatchB and checks inputs unmodified; "
                           "states/transitions: MatchMC (fold = declarative definition on every pair of the model universe)")

def c03(run):
    q = run.tier == "quick"
    run.model_check("QueryMC.tla", "MC_query.cfg" if q else "MCT_query.cfg", timeout=3000)
    drv = run.build("querydrv")
    out = os.path.join(run.tmp, "query.ndjson")
    run.run_bin(drv, ["-seed", str(run.seed), "-n", "4000" if q else "60000", "-out", out])
    rejected, _ = run.validate("QueryTrace.tla", "QueryTrace.cfg", out, "query", timeout=3000)
    with open(out) as f:
        lines = f.read().split("\n")
    for ln in rejected:
        e = json.loads(lines[ln - 1])
        run.violation("query %s on %s state, %d facts -> %s%s" % (e["json"], e["state"], len(e["facts"]),
                      json.dumps([{k: dec(v) for k, v in b.items()} for b in e["res"]])[:300], " ERR " + e["msg"] if e["err"] else ""),
                      {"header": json.loads(lines[0]), "event": e}, stage="query")
    for ln in (2, 5, 9):
        e = json.loads(lines[ln - 1])
        run.sample({"state": e["state"], "query": e["json"], "facts": [[f["loc"], f["id"], dec(f["body"])] for f in e["facts"]],
                    "result": [{k: dec(v) for k, v in b.items()} for b in e["res"]], "error": e["err"]})
    run.assumptions += TRUSTED[:2] + ["code terms come from a fixed family of nine scripts whose meaning Query!CodeOn states",
                                      "patterns keep to shapes where distinct embeddings give distinct bindings (no arrays of maps)"]
    return run.finish(rule="seeded random query trees (depth<=4, arity 0..3, and/or(+shortCircuit)/not/pattern/code/empty, shared and "
                           "fresh variables ?x ?y ?w) over random fact sets (0-4 own facts, optionally 0-3 facts of a parent), alternating "
                           "indexed and linear state, through Location.Query; TLC compares the returned bindings as a BAG with Query!Eval; "
                           "states/transitions: QueryMC (algebraic laws of Eval on all trees up to depth 1/2 x all fact subsets)")

CHECKS = {"C16": c16, "C11": c11, "C12": c12, "C13": c13, "C15": c15, "C06": c06, "C14": c14, "C17": c17, "C18": c18, "C01": c01, "C03": c03, "C04": c04, "C05": c05, "C02": c02, "C07": c07, "C08": c08, "C09": c09, "C10": c10, "C19": c19, "C20": c20}

def replay(run, path):
    rejected, out = run.validate("EngineTrace.tla", "EngineTrace.cfg", path, "replay")
    for ln in rejected:
        run.reject(path, ln, stage="replay")
    return run.finish(rule="replay of one recorded trace")
