"""Shared machinery of /verif/bin/check: build the Go harness against /repo,
run TLC (exhaustive model checking and trace validation), classify what TLC
rejects against known_findings.json, write evidence, print verdict lines.

Exit codes: 0 held (possibly with KNOWN-FINDING lines), 1 VIOLATION,
2 the check itself could not run (never reported as a violation).
"""
import json, os, re, shutil, subprocess, sys, tempfile, time, hashlib

VERIF = os.path.dirname(os.path.dirname(os.path.abspath(__file__)))
REPO = os.environ.get("VERIF_REPO", "/repo")
SPEC = os.path.join(VERIF, "spec")
HARNESS = os.path.join(VERIF, "harness")
GOENV = dict(os.environ, GOFLAGS="-mod=mod", GOPROXY="off", GOSUMDB="off", GOTOOLCHAIN="local",
             CGO_ENABLED=os.environ.get("CGO_ENABLED", "1"))
TLC_JAR = "/opt/veriftools/tla/tla2tools.jar"
CM_JAR_DIRS = ["/opt/veriftools/tla"]


class Broken(Exception):
    """The check could not run (exit 2)."""


def log(*a):
    print(*a, file=sys.stderr, flush=True)


class Run:
    """One invocation of a property check."""

    def __init__(self, prop, tier, seed):
        self.prop, self.tier, self.seed = prop, tier, seed
        self.t0 = time.time()
        self.tmp = tempfile.mkdtemp(prefix="verif-%s-" % prop, dir=os.environ.get("VERIF_TMP", "/var/tmp"))
        RUNS.append(self)
        self.violations = []      # (what, replay path)
        self.known = []           # (finding id, what)
        self.cov = {"states": 0, "transitions": 0, "traces_validated_against_impl": 0,
                    "events_validated": 0, "samples": [], "stages": []}
        self.assumptions = []
        self.findings = [f for f in load_known() if prop in f.get("properties", [f.get("property")])]
        self.bins = {}
        import threading
        self._lock = threading.Lock()

    # ---------------------------------------------------------------- build
    def build(self, name, race=False, tags="verif"):
        """go build ./cmd/<name> of the harness against /repo's working tree."""
        key = (name, race)
        if key in self.bins:
            return self.bins[key]
        out = os.path.join(self.tmp, name + ("-race" if race else ""))
        sumsrc = os.path.join(REPO, "go.sum")
        if os.path.exists(sumsrc):
            shutil.copy(sumsrc, os.path.join(HARNESS, "go.sum"))
        cmd = ["go", "build", "-tags", tags, "-o", out]
        if REPO != "/repo":
            # development aid: evaluate a scratch copy of the repository without touching /repo
            mod = open(os.path.join(HARNESS, "go.mod")).read().replace("=> /repo", "=> " + REPO)
            mf = os.path.join(self.tmp, "go.verif.mod")
            open(mf, "w").write(mod)
            shutil.copy(sumsrc, os.path.join(self.tmp, "go.verif.sum"))
            cmd.append("-modfile=" + mf)
        if race:
            cmd.append("-race")
        cmd.append("./cmd/" + name)
        p = subprocess.run(cmd, cwd=HARNESS, env=GOENV, stdout=subprocess.PIPE, stderr=subprocess.STDOUT, text=True)
        if p.returncode != 0:
            # A tree that does not compile is not a property violation.
            raise Broken("go build %s failed:\n%s" % (name, p.stdout[-3000:]))
        self.bins[key] = out
        return out

    def run_bin(self, path, args, timeout=600, env=None, ok_codes=(0,)):
        e = dict(GOENV)
        if env:
            e.update(env)
        try:
            p = subprocess.run([path] + args, cwd=self.tmp, env=e, stdout=subprocess.PIPE,
                               stderr=subprocess.PIPE, text=True, timeout=timeout)
        except subprocess.TimeoutExpired:
            raise Broken("driver timed out: %s %s" % (os.path.basename(path), " ".join(args)))
        if p.returncode not in ok_codes:
            raise Broken("driver failed (%d): %s %s\n%s\n%s" % (p.returncode, os.path.basename(path),
                                                                " ".join(args), p.stdout[-2000:], p.stderr[-3000:]))
        return p

    def run_real(self, path, args, timeout=600, stage=""):
        """run_driver for stages that need the driver's output: a reproducible crash inside rulio is recorded
        as a violation and None is returned (the stage has nothing to validate then)."""
        return self.run_driver(path, args, timeout=timeout, stage=stage)

    def run_driver(self, path, args, timeout=600, stage=""):
        """Run a driver of the real code. A crash of the process inside rulio (panic,
        fatal error, stack overflow) that reproduces is a violation (the journal of the
        run is the replay); anything else that goes wrong is a broken check."""
        e = dict(GOENV)
        def once():
            try:
                return subprocess.run([path] + args, cwd=self.tmp, env=e, stdout=subprocess.PIPE,
                                      stderr=subprocess.PIPE, text=True, timeout=timeout)
            except subprocess.TimeoutExpired as ex:
                return ex
        p = once()
        if isinstance(p, subprocess.TimeoutExpired):
            raise Broken("driver timed out: %s %s" % (os.path.basename(path), " ".join(args)))
        if p.returncode == 0:
            return p
        sig = crash_signature(p.stderr)
        if sig is None:
            raise Broken("driver failed (%d): %s %s\n%s" % (p.returncode, os.path.basename(path), " ".join(args), p.stderr[-3000:]))
        p2 = once()
        if isinstance(p2, subprocess.TimeoutExpired) or p2.returncode == 0 or crash_signature(p2.stderr) is None:
            raise Broken("driver crashed once but not on re-run: %s\n%s" % (sig, p.stderr[-1500:]))
        self.violation("process crash in rulio: " + sig, {"driver": os.path.basename(path), "args": args,
                       "stderr_head": p.stderr[:3000]}, stage=stage or "crash")
        return None

    # ------------------------------------------------------------------ TLC
    def _specdir(self):
        d = os.path.join(self.tmp, "spec")
        if not os.path.exists(d):
            shutil.copytree(SPEC, d)
        return d

    def tlc(self, module, cfg, env=None, workers="auto", timeout=1800, extra=None, label=None):
        d = self._specdir()
        meta = tempfile.mkdtemp(prefix="md-", dir=self.tmp)
        cmd = ["timeout", str(timeout), "tlc", "-workers", str(workers), "-metadir", meta,
               "-config", cfg] + (extra or []) + [module]
        e = dict(os.environ)
        if env:
            e.update(env)
        t0 = time.time()
        p = subprocess.run(cmd, cwd=d, env=e, stdout=subprocess.PIPE, stderr=subprocess.STDOUT, text=True)
        out = p.stdout
        shutil.rmtree(meta, ignore_errors=True)
        with open(os.path.join(self.tmp, "tlc-%s.out" % (label or cfg)), "w") as f:
            f.write(out)
        return p.returncode, out, time.time() - t0

    @staticmethod
    def tlc_counts(out):
        m = re.search(r"(\d+) states generated, (\d+) distinct states found", out)
        if not m:
            return 0, 0
        return int(m.group(2)), int(m.group(1))

    def model_check(self, module, cfg, workers="auto", timeout=1800, extra=None, env=None, simulate=False):
        """Exhaustive TLC run of a model; a violated invariant there is a broken
        specification (exit 2), not a verdict about the code."""
        rc, out, dt = self.tlc(module, cfg, workers=workers, timeout=timeout, extra=extra, env=env)
        states, gen = self.tlc_counts(out)
        if simulate:
            m = re.search(r"(\d+) states checked", out) or re.search(r"The number of states generated: (\d+)", out)
            if m:
                gen = int(m.group(1)); states = states or gen
        ok = ("Model checking completed. No error has been found" in out) or (simulate and rc in (0, 124) and "Error:" not in out)
        if not ok:
            raise Broken("TLC on %s/%s did not finish cleanly (rc=%d):\n%s" % (module, cfg, rc, tail(out, 40)))
        self.cov["states"] += states
        self.cov["transitions"] += gen
        self.cov["stages"].append({"stage": "model-check", "module": module, "cfg": cfg, "distinct_states": states,
                                   "states_generated": gen, "wall_s": round(dt, 1)})
        return states, gen, out

    CHUNK = 20000     # lines per TLC run: a trace file is one TLA+ value, and very large ones slow TLC down badly

    def validate(self, module, cfg, trace, label, timeout=1800):
        """TLC trace validation. Returns the list of rejected line numbers (of the given file).
        Large files are validated in pieces cut at trace boundaries (reset / round lines), each
        with the file's header line."""
        with open(trace) as f:
            lines = f.read().split("\n")
        if lines and lines[-1] == "":
            lines.pop()
        if len(lines) <= self.CHUNK + 2000:
            return self._validate_one(module, cfg, trace, label, timeout, None)
        header = lines[0] if '"ev":"header"' in lines[0] else None
        body0 = 1 if header is not None else 0
        structured = any('"ev":"reset"' in l or '"ev":"round"' in l for l in lines[body0:body0 + 5000])
        parts, cur = [], []
        for idx in range(body0, len(lines)):
            boundary = (not structured) or '"ev":"reset"' in lines[idx] or '"ev":"round"' in lines[idx]
            if len(cur) >= self.CHUNK and boundary:
                parts.append(cur)
                cur = []
            cur.append(idx)
        if cur:
            parts.append(cur)
        def one(n):
            part = parts[n]
            pf = "%s.part%d" % (trace, n)
            with open(pf, "w") as f:
                if header is not None:
                    f.write(header + "\n")
                for idx in part:
                    f.write(lines[idx] + "\n")
            off = 1 if header is not None else 0
            back = lambda k: part[k - 1 - off] + 1      # line k of the piece -> line of the file
            try:
                return self._validate_one(module, cfg, pf, "%s-%d" % (label, n), timeout, back, orig=trace)
            finally:
                os.remove(pf)
        import concurrent.futures as cf
        with cf.ThreadPoolExecutor(4) as ex:
            results = list(ex.map(one, range(len(parts))))
        rejected = [x for r, _ in results for x in r]
        return rejected, "\n".join(o for _, o in results)

    def _validate_one(self, module, cfg, trace, label, timeout, back, orig=None):
        ntr, nev = trace_counts(trace)
        # a validation run is single-threaded by nature: keep its JVM from taking the machine (several run side by side)
        rc, out, dt = self.tlc(module, cfg, env={"TRACE": trace, "JAVA_TOOL_OPTIONS": "-XX:ParallelGCThreads=2 -Xmx8g"},
                               workers=1, timeout=timeout, label=label)
        m = re.search(r'"CONSUMED",\s*(\d+),\s*"OF",\s*(\d+),\s*"REJECTED",\s*\{([^}]*)\}', out)
        if not m:
            raise Broken("trace validation of %s did not complete (rc=%d):\n%s" % (trace, rc, tail(out, 40)))
        consumed, total = int(m.group(1)), int(m.group(2))
        back = back or (lambda k: k)
        rejected = [back(int(x)) for x in re.findall(r"\d+", m.group(3))]
        md = re.search(r'"DEVIATIONS",\s*\{(.*?)\}\s*>>', out, re.S)
        devs = re.findall(r'<<\s*(\d+),\s*"(\w+)"\s*>>', md.group(1)) if md else []
        if consumed != total:
            raise Broken("trace validation consumed %d of %d lines of %s:\n%s" % (consumed, total, trace, tail(out, 40)))
        dn = distinct_traces(trace)
        with self._lock:
            for ln, name in devs:
                self.deviation(orig or trace, back(int(ln)), name, label)
            self.cov["traces_validated_against_impl"] += ntr
            self.cov["events_validated"] += nev
            self.cov["distinct_nontrivial"] = self.cov.get("distinct_nontrivial", 0) + dn
            self.cov["stages"].append({"stage": "trace-validation", "label": label, "module": module, "traces": ntr,
                                       "events": nev, "rejected": len(rejected), "wall_s": round(dt, 1)})
        return rejected, out

    # ------------------------------------------------------------- verdicts
    def reject(self, trace, line, what=None, stage=""):
        """A line of a recorded trace the specification does not explain."""
        sub = extract_subtrace(trace, line)
        ev = sub[-1]
        state = sub[1].get("state", "") if len(sub) > 1 else ""
        desc = what or describe(ev)
        f = self.match_known(ev, sub, stage)
        if f is not None:
            if f["id"] not in [k[0] for k in self.known]:
                self.known.append((f["id"], f["what"]))
            return
        os.makedirs(os.path.join(VERIF, "replays", self.prop), exist_ok=True)
        h = hashlib.sha1(json.dumps(sub, sort_keys=True).encode()).hexdigest()[:10]
        path = os.path.join(VERIF, "replays", self.prop, "%s-%s-%s.ndjson" % (stage or "trace", self.seed, h))
        with open(path, "w") as fh:
            for e in sub:
                fh.write(json.dumps(e) + "\n")
        self.violations.append(("%s state=%s: %s" % (stage, state, desc), path))

    def deviation(self, trace, line, name, stage):
        """A line only a named deviation of the specification explains: a known
        finding if known_findings.json lists that deviation for this property,
        a violation otherwise."""
        for f in self.findings:
            if f.get("status") != "fixed" and f.get("deviation") == name:
                if f["id"] not in [k[0] for k in self.known]:
                    self.known.append((f["id"], f["what"]))
                self.cov.setdefault("deviation_lines", {}).setdefault(name, 0)
                self.cov["deviation_lines"][name] += 1
                return
        self.reject(trace, line, what="unlisted deviation %s" % name, stage=stage)

    def violation(self, what, replay_obj, stage=""):
        """A violation found outside trace validation (crash, hang, oracle)."""
        f = self.match_known({"what": what}, [replay_obj], stage)
        if f is not None:
            if f["id"] not in [k[0] for k in self.known]:
                self.known.append((f["id"], f["what"]))
            return
        os.makedirs(os.path.join(VERIF, "replays", self.prop), exist_ok=True)
        h = hashlib.sha1(json.dumps(replay_obj, sort_keys=True, default=str).encode()).hexdigest()[:10]
        path = os.path.join(VERIF, "replays", self.prop, "%s-%s-%s.json" % (stage or "case", self.seed, h))
        with open(path, "w") as fh:
            json.dump(replay_obj, fh, indent=1, default=str)
        self.violations.append(("%s: %s" % (stage, what), path))

    def match_known(self, ev, sub, stage):
        for f in self.findings:
            if f.get("status") == "fixed":
                continue  # a fixed entry suppresses nothing
            m = f.get("match")
            if not m:
                continue  # identified by a specification deviation, never by a rejected line
            if "stage" in m and m["stage"] != stage:
                continue
            if "what_re" in m and not re.search(m["what_re"], ev.get("what", "") or describe(ev)):
                continue
            if "op" in m and ev.get("op") != m["op"]:
                continue
            if "state" in m and (len(sub) < 2 or sub[1].get("state") != m["state"]):
                continue
            if "res_c" in m and ev.get("res", {}).get("c") != m["res_c"]:
                continue
            if "expr" in m:
                try:
                    if not eval(m["expr"], {"ev": ev, "sub": sub, "dec": dec, "re": re}):
                        continue
                except Exception:
                    continue
            return f
        return None

    # -------------------------------------------------------------- evidence
    def sample(self, x):
        if len(self.cov["samples"]) < 6:
            self.cov["samples"].append(x)

    def finish(self, level="model_checking", rule="", extra_cov=None):
        wall = time.time() - self.t0
        cov = dict(self.cov)
        if extra_cov:
            cov.update(extra_cov)
        cov.setdefault("evaluations", cov.get("events_validated", 0))
        cov["rule"] = rule
        if level == "model_checking" and "distinct_nontrivial" in cov:
            cov["rule"] += ("; distinct_nontrivial = recorded traces (from one reset / round line to the next) of at least 3 "
                            "events -- or, where a file has no such structure, recorded cases -- counted once when they differ "
                            "only in times, sequence numbers and storage keys")
        if not cov["samples"]:
            cov["samples"] = ["(no sample recorded)"]
        ev = {"property_id": self.prop, "tier": self.tier, "seed": self.seed, "level": level,
              "coverage": cov, "assumptions": self.assumptions, "wall_s": round(wall, 1),
              "violations": len(self.violations),
              "known_findings_observed": [k[0] for k in self.known]}
        # evidence is about /repo only: a run against a scratch copy (VERIF_REPO, development aid) leaves it alone
        evdir = os.path.join(VERIF, "evidence") if REPO == "/repo" else os.path.join(os.environ.get("VERIF_TMP", "/var/tmp"), "verif-evidence-scratch")
        os.makedirs(evdir, exist_ok=True)
        with open(os.path.join(evdir, self.prop + ".json"), "w") as f:
            json.dump(ev, f, indent=1)
        for fid, what in self.known:
            print("KNOWN-FINDING: property=%s %s (%s)" % (self.prop, what, fid))
        for what, path in self.violations[:20]:
            print("VIOLATION property=%s replay=%s  # %s" % (self.prop, path, what))
        shutil.rmtree(self.tmp, ignore_errors=True)
        print("%s %s tier=%s seed=%d states=%d transitions=%d traces=%d events=%d wall=%.0fs" % (
            self.prop, "VIOLATED" if self.violations else "held", self.tier, self.seed, cov["states"],
            cov["transitions"], cov["traces_validated_against_impl"], cov.get("events_validated", 0), wall))
        return 1 if self.violations else 0


def crash_signature(stderr):
    """First frames of a Go panic / fatal error if they lie in rulio or its matcher; None otherwise."""
    h = re.search(r"^VERIF-HANG (.*)$", stderr, re.M)
    if h:
        # the harness's per-operation watchdog: a call into rulio that did not come back
        return "operation did not return: " + h.group(1)[:200]
    m = re.search(r"^(panic: .*|fatal error: .*|runtime: goroutine stack exceeds.*)$", stderr, re.M)
    if not m:
        return None
    frames = re.findall(r"^(github\.com/Comcast/[^\s(]+|verif/harness/[^\s(]+)\(", stderr[m.start():], re.M)
    rulio = [f for f in frames if f.startswith("github.com/Comcast/")]
    if not rulio:
        return None
    uniq = []
    for f in rulio:
        if f not in uniq:
            uniq.append(f)
    return "%s at %s" % (m.group(1)[:120], " <- ".join(uniq[:3]))


def tail(s, n):
    return "\n".join(s.strip().split("\n")[-n:])


def load_known():
    p = os.path.join(VERIF, "known_findings.json")
    if not os.path.exists(p):
        return []
    return json.load(open(p)).get("findings", [])


def trace_counts(path):
    ntr = nev = 0
    with open(path) as f:
        for line in f:
            if '"ev":"reset"' in line:
                ntr += 1
            elif '"ev":"header"' not in line:
                nev += 1
    return (ntr or nev), nev


TIMING_KEYS = ("now", "t0", "t1", "t", "seq", "next", "s0", "abs", "off", "at", "tid", "v", "k", "elapsed_ms", "disk", "crashes")

def _strip(x):
    if isinstance(x, dict):
        return {k: _strip(v) for k, v in x.items() if k not in TIMING_KEYS}
    if isinstance(x, list):
        return [_strip(v) for v in x]
    return x

def distinct_traces(path):
    """Number of distinct traces in the file (a trace runs from one reset / round line to the next; traces
    that differ only in times, sequence numbers and storage keys count once) that hold at least 3 events."""
    seen, cur, n = set(), [], 0
    text = open(path).read()
    if '"ev":"reset"' not in text and '"ev":"round"' not in text:
        # no trace structure: every line is a case of its own
        out = set()
        for line in text.split("\n"):
            if line.strip() and '"ev":"header"' not in line:
                try:
                    out.add(json.dumps(_strip(json.loads(line)), sort_keys=True))
                except Exception:
                    out.add(line)
        return len(out)
    def close():
        nonlocal cur
        if n >= 3:
            seen.add(hashlib.sha1("\n".join(cur).encode()).hexdigest())
        cur = []
    with open(path) as f:
        for line in f:
            if '"ev":"header"' in line or not line.strip():
                continue
            if '"ev":"reset"' in line or '"ev":"round"' in line:
                close()
                n = 0
                continue
            try:
                cur.append(json.dumps(_strip(json.loads(line)), sort_keys=True))
            except Exception:
                cur.append(line)
            n += 1
    close()
    return len(seen)


def extract_subtrace(path, line):
    """header + the trace (reset .. line) containing 1-based `line`."""
    with open(path) as f:
        lines = f.read().split("\n")
    start = line
    while start > 1 and '"ev":"reset"' not in lines[start - 1]:
        start -= 1
    return [json.loads(lines[0])] + [json.loads(x) for x in lines[start - 1:line]]


def dec(x):
    if not isinstance(x, dict) or "k" not in x:
        return x
    k = x["k"]
    if k in ("s", "v"):
        return x["a"]
    if k == "n":
        try:
            return int(x["a"])
        except ValueError:
            return float(x["a"])
    if k == "b":
        return x["a"] == "true"
    if k == "z":
        return None
    if k == "m":
        return {kk: dec(v) for kk, v in x["m"].items()}
    if k == "l":
        return [dec(v) for v in x["l"]]


def describe(ev):
    if ev.get("ev") != "op":
        return json.dumps(ev)[:300]
    r = ev.get("res", {})
    i = ev.get("id") or ""
    if len(i) > 60:
        i = "%s...(%d characters)" % (i[:20], len(i))
    return "%s@%s id=%s val=%s -> %s" % (ev.get("op"), ev.get("loc"), i,
                                          json.dumps(dec(ev.get("val")))[:160], r.get("c"))


RUNS = []     # every Run of this process (their scratch directories are removed on the way out, whatever happens)

def main_wrap(fn):
    code = 2
    try:
        code = fn()
    except Broken as e:
        log("BROKEN:", e)
        code = 2
    finally:
        for r in RUNS:
            shutil.rmtree(r.tmp, ignore_errors=True)
    sys.exit(code)
